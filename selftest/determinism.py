#!/venv/bin/python
"""Determinism / isolation self-test.

For a sample of scenario indexes of one property: digest of (a) two
executions in one process, (b) execution as the last element of a batch of
other scenarios (isolation), (c) execution in a fresh interpreter under a
different PYTHONHASHSEED.  All must agree.

usage: determinism.py C09 [--n 200] [--child]  (exit 0 = deterministic)
"""
import json, os, subprocess, sys
V = os.path.dirname(os.path.dirname(os.path.abspath(__file__)))
sys.path.insert(0, V)
from sim import runner


def digests(pid, idxs, base, batch_first=False):
    mod = runner.load_prop(pid)
    out = {}
    for i in idxs:
        scn = mod.generate(runner.seed_for(base, pid, i), 'quick')
        r = runner.run_one(mod, scn)
        if r.get('harness_errors'):
            out[i] = 'HE:' + r['harness_errors'][0][:200]
        else:
            out[i] = r['digest'] + '|' + ','.join(sorted(
                runner.signature(v) for v in r['violations']))
    return out


def main():
    pid = sys.argv[1].upper()
    n = 200
    if '--n' in sys.argv:
        n = int(sys.argv[sys.argv.index('--n') + 1])
    base = int(os.environ.get('VERIF_SEED') or runner.DEFAULT_SEED)
    idxs = list(range(n))
    if '--child' in sys.argv:
        # reversed order: also checks independence from batch position
        d = digests(pid, list(reversed(idxs)), base)
        json.dump({str(k): v for k, v in d.items()}, sys.stdout)
        return 0
    d1 = digests(pid, idxs, base)
    d2 = digests(pid, idxs, base)
    bad = [i for i in idxs if d1[i] != d2[i]]
    he = [i for i in idxs if d1[i].startswith('HE:')]
    env = dict(os.environ, PYTHONHASHSEED='12345', TZ='UTC', PYTHONWARNINGS='ignore')
    cp = subprocess.run([sys.executable, os.path.abspath(__file__), pid, '--n', str(n), '--child'],
                        capture_output=True, text=True, env=env, timeout=3600)
    if cp.returncode != 0:
        print('child failed', cp.stderr[-2000:])
        return 2
    d3 = {int(k): v for k, v in json.loads(cp.stdout).items()}
    bad3 = [i for i in idxs if d1[i] != d3[i]]
    print('%s: %d scenarios; same-process mismatches=%d; fresh-interpreter/'
          'other-hashseed/reversed-batch mismatches=%d; harness errors=%d; '
          'distinct digests=%d' % (pid, n, len(bad), len(bad3), len(he), len(set(d1.values()))))
    if bad or bad3 or he:
        print('first mismatching indexes:', bad[:5], bad3[:5], he[:5])
        return 1
    return 0


if __name__ == '__main__':
    sys.exit(main())
