#!/venv/bin/python
"""Loop fidelity self-test: micro-programs that use only gevent primitives are
run on gevent's real loop (in a child interpreter) and on SimLoop; the order
of observable effects must be identical.  This is the evidence that a
schedule produced by SimLoop (FIFO callbacks, timers by due time) is one the
real hub produces too."""
import json, os, subprocess, sys
V = os.path.dirname(os.path.dirname(os.path.abspath(__file__)))
sys.path.insert(0, V)

PROGRAMS = r'''
import gevent
from gevent.event import Event, AsyncResult
from gevent.lock import Semaphore
from gevent.pool import Pool

def p_spawn_order(out):
    gs = [gevent.spawn(out.append, ('start', i)) for i in range(5)]
    gevent.joinall(gs)

def p_event(out):
    ev = Event()
    def waiter(i):
        out.append(('wait', i)); ev.wait(); out.append(('woke', i))
    gs = [gevent.spawn(waiter, i) for i in range(3)]
    gevent.sleep(0)
    out.append('set'); ev.set(); ev.clear(); out.append('cleared')
    gevent.joinall(gs)

def p_sem_barging(out):
    # the pattern of Queue._run / flush: holder releases and re-acquires at once
    sem = Semaphore(1)
    def holder():
        for k in range(3):
            sem.acquire(); out.append(('hold', k)); gevent.sleep(0.01); sem.release()
    def other():
        out.append('other-wants'); sem.acquire(); out.append('other-got'); sem.release()
    g1 = gevent.spawn(holder); gevent.sleep(0.005); g2 = gevent.spawn(other)
    gevent.joinall([g1, g2])

def p_pool(out):
    p = Pool(2)
    def job(i):
        out.append(('job-start', i)); gevent.sleep(0.01 * (3 - i)); out.append(('job-end', i))
    for i in range(4):
        out.append(('spawning', i)); p.spawn(job, i)
    p.join()

def p_async_result(out):
    ar = AsyncResult()
    def getter(i):
        out.append(('get', i, ar.get()))
    gs = [gevent.spawn(getter, i) for i in range(3)]
    gevent.sleep(0); ar.set('v'); gevent.joinall(gs)

def p_link(out):
    def body(): out.append('body'); return 7
    g = gevent.spawn(body)
    g.link(lambda gr: out.append(('link1', gr.value)))
    g.link(lambda gr: out.append(('link2', gr.value)))
    g.join(); gevent.sleep(0); out.append('after-join')

def p_sleep0(out):
    def rr(i):
        for k in range(3):
            out.append((i, k)); gevent.sleep(0)
    gevent.joinall([gevent.spawn(rr, i) for i in range(3)])

def p_timeout_in_acquire(out):
    sem = Semaphore(0)
    def w():
        try:
            with gevent.Timeout(0.02):
                sem.acquire()
            out.append('acquired')
        except gevent.Timeout:
            out.append('timeout')
    g = gevent.spawn(w); gevent.sleep(0.05); sem.release(); g.join(); out.append('end')

def p_timers(out):
    def t(d): gevent.sleep(d); out.append(('fired', d))
    gevent.joinall([gevent.spawn(t, d) for d in (0.03, 0.01, 0.02, 0.0)])

def p_kill(out):
    def victim():
        try:
            gevent.sleep(10)
        finally:
            out.append('victim-finally')
    g = gevent.spawn(victim); gevent.sleep(0.01); out.append('killing'); g.kill(); out.append('killed')

def p_spawn_later(out):
    gevent.spawn_later(0.02, out.append, 'later-2')
    gevent.spawn_later(0.01, out.append, 'later-1')
    gevent.spawn(out.append, 'now')
    gevent.sleep(0.05)

ALL = [p_spawn_order, p_event, p_sem_barging, p_pool, p_async_result, p_link,
       p_sleep0, p_timeout_in_acquire, p_timers, p_kill, p_spawn_later]

def run_all():
    res = {}
    for p in ALL:
        out = []
        p(out)
        res[p.__name__] = [list(x) if isinstance(x, tuple) else x for x in out]
    return res
'''

def real():
    code = PROGRAMS + "\nimport json\nprint(json.dumps(run_all()))\n"
    cp = subprocess.run([sys.executable, '-W', 'ignore', '-c', code], capture_output=True, text=True, timeout=120)
    if cp.returncode != 0:
        print(cp.stderr); sys.exit(2)
    return json.loads(cp.stdout.strip().splitlines()[-1])

def sim():
    from sim.world import World
    ns = {}
    exec(PROGRAMS, ns)
    res = {}
    for p in ns['ALL']:
        w = World(12345)
        w.loop.batch_timers = True
        try:
            out = []
            p(out)
            res[p.__name__] = json.loads(json.dumps([list(x) if isinstance(x, tuple) else x for x in out]))
        finally:
            w.close()
    return res

def main():
    a, b = real(), sim()
    bad = 0
    n = 0
    for k in a:
        n += len(a[k])
        if a[k] != b.get(k):
            bad += 1
            print('MISMATCH', k, '\n real:', a[k], '\n sim: ', b.get(k))
    print('loop fidelity: %d micro-programs, %d observable effects, %d mismatching program(s)' % (len(a), n, bad))
    return 1 if bad else 0

if __name__ == '__main__':
    sys.exit(main())
