"""C17 - replies survive the wire: encode/parse round trip, exact consumption,
bad-reply on malformed input.  Real IO.send_reply / Reply.send on one side,
real Reply.recv / IO.recv_reply on the other, SimSocket in between."""
from __future__ import annotations

import random

import gevent

from sim.world import World
from sim import net

ID = 'C17'
RULE = ('seeded sequences of 1-3 replies (codes 200-599; in 35% of them a '
        'reply object with a history - code or text reassigned, enhanced '
        'status set, another reply copied in; texts with Unicode, '
        'embedded CR/LF, ESC-looking prefixes, empty inner lines, inner lines '
        'starting with white space or "-") written by IO.send_reply and parsed '
        'by Reply.recv under 3-4 seeded segmenters/latency classes/read caps; '
        'plus malformed wire shapes (mixed codes, non-numeric or out-of-range '
        'code, invalid UTF-8, missing separator, truncation) followed by EOF; '
        'non-trivial = multi-line or ESC-prefixed or malformed input and the '
        'stream was cut inside a reply; distinct = distinct event-log digest')
COMPONENTS = {
    'real': ['slimta.smtp.io.IO.send_reply/recv_reply/buffered_recv',
             'slimta.smtp.reply.Reply'],
    'stub': ['SimLoop', 'SimSocket'],
}
BUDGET = {'quick': 40000, 'thorough': 800000}
PROBES = ['multi-line', 'esc-prefix', 'esc-class-mismatch', 'unicode',
          'embedded-cr', 'pipelined-successor', 'malformed-mixed-codes',
          'malformed-non-numeric', 'malformed-out-of-range',
          'malformed-invalid-utf8', 'malformed-no-separator', 'truncated',
          'code-1xx-3xx', 'reply-with-history',
          'stream-fills-read-exactly']
STATES_MEASURE = 'distinct (reply shape flags, segmenter) pairs'
STEP_CAP = 200000
WORDS = ['Ok', 'Hello there', 'café 世界', '2.1.0 Sender ok',
         '5.7.1 no', '4.0.0', '2.0.0  two spaces', 'x' * 70, '-dash',
         '250 looks like code', '', 'tab\there', '5.1.1', '2.99.999 wide']


def gen_text(rng):
    n = rng.choice([1, 1, 1, 2, 3])
    lines = []
    for i in range(n):
        w = rng.choice(WORDS)
        if i > 0 and rng.random() < 0.2:
            w = rng.choice([' ', '\t', '']) + w
        if rng.random() < 0.1:
            w = w + '\r' + 'after-cr'
        lines.append(w)
    if lines[0][:1] in (' ', '\t'):
        lines[0] = 'a' + lines[0]
    sep = rng.choice(['\r\n', '\r\n', '\n'])
    return sep.join(lines)


def generate(seed, tier='quick'):
    rng = random.Random(seed)
    scn = {'property': ID, 'harness': 'wire', 'seed': seed,
           'sched_seed': rng.getrandbits(48)}
    pool = [['byte', None], ['line', None], ['crlf', None], ['cuts', 0.3],
            ['few', None], ['chunk', rng.choice([2, 3, 7])]]
    rng.shuffle(pool)
    variants = [['whole', None, 0, None]]
    for v in pool[:rng.randint(2, 3)]:
        variants.append(v + [rng.choice([0, 1]), rng.choice([None, None, 1, 2])])
    scn['variants'] = variants
    if rng.random() < 0.7:
        scn['kind'] = 'roundtrip'
        if rng.random() < 0.08:
            scn['pad_to'] = 4096
            # (whole or large pieces only: byte-wise delivery of 4 KiB
            # costs thousands of steps and never yields a full read)
            scn['variants'] = [['whole', None, 0, None],
                               ['chunk', 4096, rng.choice([0, 1]), None],
                               ['few', None, 0, None]]
        reps = []
        for _ in range(rng.randint(1, 3)):
            code = str(rng.choice([rng.randint(200, 599), 250, 354, 220, 421,
                                   550, 451, 334]))
            rep = [code, gen_text(rng)]
            if rng.random() < 0.35:
                # the reply object has a history before it is written: a
                # handler changes the code of a pre-built reply, replaces
                # the text, copies another reply, sets the enhanced status
                steps = []
                for _ in range(rng.randint(1, 2)):
                    c = rng.random()
                    if c < 0.45:
                        steps.append(['code', str(rng.choice([250, 451, 550,
                                                              421, 354, 221,
                                                              rng.randint(200, 599)]))])
                    elif c < 0.7:
                        steps.append(['message', gen_text(rng)])
                    elif c < 0.85:
                        steps.append(['esc', '%d.%d.%d' % (rng.choice([2, 4, 5]),
                                                           rng.randint(0, 9),
                                                           rng.randint(0, 20))])
                    else:
                        steps.append(['copy', str(rng.choice([250, 450, 550])),
                                      gen_text(rng)])
                rep.append(steps)
            reps.append(rep)
        scn['replies'] = reps
    else:
        scn['kind'] = 'malformed'
        shape = rng.choice(['mixed', 'nonnumeric', 'range', 'range', 'utf8',
                            'nosep', 'trunc', 'trunc-multi', 'short-code'])
        wire = {
            'mixed': b'250-first\r\n251 second\r\n',
            'nonnumeric': rng.choice([b'2x0 hello\r\n', b'abc def\r\n',
                                      b'OK\r\n', b'\r\n', b' 250 x\r\n']),
            'range': rng.choice([b'600 too big\r\n', b'000 zero\r\n',
                                 b'999 x\r\n', b'099-a\r\n099 b\r\n',
                                 b'650-multi\r\n650 line\r\n']),
            'utf8': b'250 bad \xff\xfe bytes\r\n',
            'nosep': rng.choice([b'250\r\n', b'250x\r\n', b'2501 x\r\n']),
            'trunc': rng.choice([b'250 no newline', b'25', b'250-more\r\n',
                                 b'']),
            'trunc-multi': b'250-a\r\n250-b\r\n250',
            'short-code': b'25 x\r\n',
        }[shape]
        scn['shape'] = shape
        scn['wire'] = wire.hex()
        scn['then'] = rng.choice(['', '250 next\r\n'])
    return scn


def norm(s):
    return s.replace('\r\n', '\n').replace('\n', '\r\n')


def execute(scn, debug=False):
    from slimta.smtp.io import IO
    from slimta.smtp.reply import Reply
    from slimta.smtp import BadReply, ConnectionLost
    world = World(scn['sched_seed'], step_cap=STEP_CAP, debug=debug)
    try:
        violations = []
        flags = ()
        for i, (mode, param, latc, cap) in enumerate(scn['variants']):
            if violations:
                break
            a, b = net.socketpair(
                world, 'v%d' % i,
                a_opts={'segmenter': mode, 'seg_param': param,
                        'latency': net.LAT_ZERO if not latc else net.LAT_SMALL},
                b_opts={'read_cap': cap})
            out = {'got': []}
            if scn['kind'] == 'roundtrip':
                sent = []
                io_w = IO(a, ('w', 0))
                for rep in scn['replies']:
                    code, text = rep[0], rep[1]
                    r = Reply(code, text)
                    for st in (rep[2] if len(rep) > 2 else ()):
                        world.probe('reply-with-history')
                        if st[0] == 'code':
                            r.code = st[1]
                        elif st[0] == 'message':
                            r.message = st[1]
                        elif st[0] == 'esc':
                            r.enhanced_status_code = st[1]
                        elif st[0] == 'copy':
                            r.copy(Reply(st[1], st[2]))
                    sent.append((r.code, r.message, r.enhanced_status_code))
                    r.send(io_w)
                if scn.get('pad_to'):
                    # a last reply sized so that the whole stream is an exact
                    # multiple of the reader's 4096-byte read: the read that
                    # completes it fills the request and nothing follows
                    world.probe('stream-fills-read-exactly')
                    pending = len(io_w.send_buffer.getvalue())
                    scratch = IO(None, ('x', 0))
                    Reply('250', 'pad ').send(scratch)
                    n0 = len(scratch.send_buffer.getvalue())
                    k = (-(pending + n0)) % scn['pad_to']
                    r = Reply('250', 'pad ' + 'p' * k)
                    sent.append((r.code, r.message, r.enhanced_status_code))
                    r.send(io_w)
                io_w.flush_send()
                a.shutdown(2)

                def reader():
                    io_r = IO(b, ('r', 0))
                    for k in range(len(sent)):
                        r = Reply()
                        try:
                            r.recv(io_r)
                        except Exception as e:
                            out['exc'] = (k, '%s: %s' % (type(e).__name__, e))
                            return
                        out['got'].append((r.code, r.message,
                                           r.enhanced_status_code,
                                           io_r.recv_buffer))
                    out['left'] = io_r.recv_buffer
                g = gevent.spawn(reader)
                ok = world.wait(g, 300.0)
                if not ok:
                    violations.append({'clause': 'C17/hang', 'detail': {},
                                       'msg': 'recv_reply did not return'})
                    break
                if 'exc' in out:
                    violations.append({
                        'clause': 'C17/roundtrip', 'detail': {'what': 'raised'},
                        'msg': 'reply #%d %r raised %s (variant %s)' % (
                            out['exc'][0],
                            scn['replies'][out['exc'][0]]
                            if out['exc'][0] < len(scn['replies'])
                            else 'the padding reply',
                            out['exc'][1], mode)})
                    break
                for k, (code, msg, esc) in enumerate(sent):
                    gc, gm, ge, buf = out['got'][k]
                    if gc != code or norm(gm or '') != norm(msg or ''):
                        violations.append({
                            'clause': 'C17/roundtrip', 'detail': {},
                            'msg': 'sent %r %r, parsed %r %r (variant %s %s '
                                   'cap=%s)' % (code, msg, gc, gm, mode, param,
                                                cap)})
                        break
                    if ge is not None and ge[0] != gc[0]:
                        violations.append({
                            'clause': 'C17/esc-class', 'detail': {},
                            'msg': 'parsed reply %s has enhanced status %s'
                                   % (gc, ge)})
                        break
                    if esc is not None and esc[0] != code[0]:
                        violations.append({
                            'clause': 'C17/esc-class', 'detail': {},
                            'msg': 'reply %s built with enhanced status %s'
                                   % (code, esc)})
                        break
                if not violations:
                    rest = out.get('left', b'') + b.unread()
                    if rest != b'':
                        violations.append({
                            'clause': 'C17/consumption', 'detail': {},
                            'msg': 'bytes left after the last reply: %r'
                                   % rest[:40]})
                flags = (any('\n' in rp[1] for rp in scn['replies']),
                         len(scn['replies']),
                         any(len(rp) > 2 for rp in scn['replies']))
            else:
                wire = bytes.fromhex(scn['wire'])
                then = scn['then'].encode()
                a.sendall(wire + then)
                a.shutdown(2)

                def reader2():
                    io_r = IO(b, ('r', 0))
                    r = Reply()
                    try:
                        r.recv(io_r)
                        out['ret'] = (r.code, r.message)
                    except (BadReply, ConnectionLost) as e:
                        out['ok_exc'] = type(e).__name__
                    except Exception as e:
                        out['exc'] = '%s: %s' % (type(e).__name__, e)
                    out['left'] = io_r.recv_buffer
                g = gevent.spawn(reader2)
                ok = world.wait(g, 300.0)
                world.probe({'mixed': 'malformed-mixed-codes',
                             'nonnumeric': 'malformed-non-numeric',
                             'range': 'malformed-out-of-range',
                             'utf8': 'malformed-invalid-utf8',
                             'nosep': 'malformed-no-separator',
                             'trunc': 'truncated', 'trunc-multi': 'truncated',
                             'short-code': 'malformed-non-numeric'}[
                                 scn['shape']])
                if not ok:
                    violations.append({
                        'clause': 'C17/malformed',
                        'detail': {'shape': scn['shape'], 'what': 'hang'},
                        'msg': 'recv_reply did not terminate on %r' % wire})
                    break
                if 'exc' in out:
                    violations.append({
                        'clause': 'C17/malformed',
                        'detail': {'shape': scn['shape'],
                                   'exc': out['exc'].split(':')[0]},
                        'msg': 'malformed reply %r raised %s instead of a '
                               'bad-reply error (variant %s)' % (
                                   wire, out['exc'], mode)})
                    break
                if 'ret' in out:
                    # a reply was returned: only acceptable when `then`
                    # completes a well-formed reply (truncation + successor)
                    joined = wire + then
                    wellformed_after_all = scn['shape'] in (
                        'trunc', 'trunc-multi') and _wellformed(joined)
                    if not wellformed_after_all:
                        violations.append({
                            'clause': 'C17/malformed',
                            'detail': {'shape': scn['shape'],
                                       'what': 'returned'},
                            'msg': 'malformed reply %r was returned as %r '
                                   '(variant %s)' % (wire, out['ret'], mode)})
                        break
                flags = (scn['shape'],)
        if scn['kind'] == 'roundtrip':
            for rp in scn['replies']:
                code, text = rp[0], rp[1]
                if '\n' in text:
                    world.probe('multi-line')
                if any(ord(c) > 127 for c in text):
                    world.probe('unicode')
                if '\rafter' in text:
                    world.probe('embedded-cr')
                if text[:1].isdigit() and '.' in text[:6]:
                    world.probe('esc-prefix')
                    if text[0] != code[0]:
                        world.probe('esc-class-mismatch')
                if code[0] in '13':
                    world.probe('code-1xx-3xx')
            if len(scn['replies']) > 1:
                world.probe('pipelined-successor')
        nontrivial = scn['kind'] == 'malformed' or any(
            '\n' in rp[1] or (rp[1][:1].isdigit()) for rp in scn['replies'])
        return {
            'violations': violations, 'digest': world.digest(),
            'nontrivial': nontrivial, 'probes': dict(world.probes),
            'faults': dict(world.faults),
            'states': [hash((flags, v[0])) for v in scn['variants']],
            'steps': world.loop.steps, 'sim_s': world.loop.elapsed(),
            'inconclusive': world.loop.cap_hit,
            'harness_errors': list(world.harness_errors),
            'summary': {'kind': scn['kind'], 'replies': scn.get('replies'),
                        'wire': scn.get('wire') and
                        repr(bytes.fromhex(scn['wire'])),
                        'variants': [v[0] for v in scn['variants']]},
        }
    finally:
        world.close()


def _wellformed(data):
    import re
    m = re.match(br'(?:(\d\d\d)-[^\n]*\r?\n)*(\d\d\d)[ \t][^\n]*\r?\n', data)
    return bool(m)


def shrink_candidates(scn, clause):
    vs = scn['variants']
    if len(vs) > 1:
        for i in range(len(vs)):
            c = dict(scn)
            c['variants'] = [vs[i]]
            yield c
    reps = scn.get('replies') or []
    if len(reps) > 1:
        for i in range(len(reps)):
            c = dict(scn)
            c['replies'] = reps[:i] + reps[i + 1:]
            yield c
    if scn.get('then'):
        c = dict(scn)
        c['then'] = ''
        yield c
    for i, rp in enumerate(reps):
        if len(rp) > 2:
            for j in range(len(rp[2])):
                c = dict(scn)
                c['replies'] = [list(x) for x in reps]
                st = rp[2][:j] + rp[2][j + 1:]
                c['replies'][i] = rp[:2] + ([st] if st else [])
                yield c
