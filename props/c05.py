"""C05 - message content crosses DATA framing unchanged under any segmentation.

Real DataSender -> real IO -> SimSocket (seeded segmentation, latency, short
reads) -> real IO + DataReader.  The input alphabet is small on purpose; what
the simulator contributes is the quantifier over segmentations / recv()
boundaries and over what is already buffered when the reader starts."""
from __future__ import annotations

import random

import gevent

from sim.world import World
from sim import net

ID = 'C05'
RULE = ('seeded message byte strings over {".", CR, LF, "a", 8-bit, NUL, '
        'space} plus realistic messages, split into DataSender parts at line '
        'boundaries, followed by seeded trailing pipelined bytes; each wire '
        'stream delivered under 3-5 seeded segmenters / latency classes / '
        'read caps, optionally with the first segment pre-loaded into '
        'IO.recv_buffer; non-trivial = message has a dot-leading line or a '
        'bare CR/LF, and >= 2 variants segmented differently; distinct = '
        'distinct event-log digest')
COMPONENTS = {
    'real': ['slimta.smtp.datasender.DataSender',
             'slimta.smtp.datareader.DataReader', 'slimta.smtp.io.IO'],
    'stub': ['SimLoop', 'SimSocket (segmentation, latency, read caps)'],
}
BUDGET = {'quick': 30000, 'thorough': 600000}
PROBES = ['dot-leading-line', 'bare-lf', 'bare-cr', 'no-final-newline',
          'empty-message', 'trailing-bytes', 'preloaded-buffer',
          'eod-split-across-reads', 'multi-part', 'lone-dot-line',
          'variants-concurrent', 'size-limit-just-fits', 'over-size-limit']
STATES_MEASURE = 'distinct (message class flags, segmenter) pairs'
STEP_CAP = 300000
ALPHA = [b'.', b'\r', b'\n', b'a', b'\r\n', b'\r\n', b'.\r\n', b'\xe9',
         b'\x00', b' ', b'..', b'a.b']


def generate(seed, tier='quick'):
    rng = random.Random(seed)
    c = rng.random()
    if c < 0.08:
        msg = b''
    elif c < 0.75:
        msg = b''.join(rng.choice(ALPHA) for _ in range(rng.randint(1, 24)))
    else:
        lines = []
        for _ in range(rng.randint(1, 8)):
            lines.append(rng.choice([b'Subject: x', b'', b'.', b'..', b'.hidden',
                                     b'body line', b'a' * rng.randint(1, 90),
                                     b'caf\xc3\xa9', b'. ', b'.\t']))
        msg = b'\r\n'.join(lines) + rng.choice([b'\r\n', b'\r\n', b'', b'\n'])
    # parts: split at line boundaries (after LF)
    cuts = [i + 1 for i in range(len(msg) - 1) if msg[i] == 10]
    chosen = sorted(rng.sample(cuts, min(len(cuts), rng.randint(0, 3))))
    parts, last = [], 0
    for p in chosen:
        parts.append(msg[last:p])
        last = p
    parts.append(msg[last:])
    if rng.random() < 0.1:
        parts.insert(rng.randrange(len(parts) + 1), b'')
    trailing = rng.choice([b'', b'', b'QUIT\r\n', b'.\r\n', b'MAIL FROM:<x>\r\n.\r\n',
                           b'\r\n', b'RSET', b'.', b'x\r\n.\r\nNOOP\r\n'])
    nvar = rng.randint(3, 5)
    pool = [['byte', None], ['line', None], ['crlf', None], ['cuts', 0.15],
            ['cuts', 0.5], ['few', None], ['chunk', rng.choice([2, 3, 5])]]
    rng.shuffle(pool)
    variants = [['whole', None, 0, None, False]]
    for v in pool[:nvar - 1]:
        variants.append(v + [rng.choice([0, 1]), rng.choice([None, None, 1, 3]),
                             rng.random() < 0.3])
    return {'property': ID, 'harness': 'wire', 'seed': seed,
            'sched_seed': rng.getrandbits(48),
            'parts': [p.hex() for p in parts], 'trailing': trailing.hex(),
            'variants': variants, 'concurrent': rng.random() < 0.4,
            'max_size': rng.choice([None, None, 'exact', 'exact', 'room',
                                    'small'])}


def execute(scn, debug=False):
    from slimta.smtp.io import IO
    from slimta.smtp.datasender import DataSender
    from slimta.smtp.datareader import DataReader
    world = World(scn['sched_seed'], step_cap=STEP_CAP, debug=debug)
    try:
        parts = [bytes.fromhex(p) for p in scn['parts']]
        msg = b''.join(parts)
        trailing = bytes.fromhex(scn['trailing'])
        want = msg if (msg == b'' or msg.endswith(b'\r\n')) else msg + b'\r\n'
        violations = []
        results = []
        started = []
        if scn.get('concurrent'):
            world.probe('variants-concurrent')
        if scn.get('max_size'):
            world.probe('size-limit-just-fits')
        for i, (mode, param, latc, cap, preload) in enumerate(scn['variants']):
            a, b = net.socketpair(
                world, 'v%d' % i,
                a_opts={'segmenter': mode, 'seg_param': param,
                        'latency': net.LAT_ZERO if not latc else net.LAT_SMALL},
                b_opts={'read_cap': cap})
            out = {}

            def writer(a=a):
                io_w = IO(a, ('w', 0))
                DataSender(*parts).send(io_w)
                io_w.buffered_send(trailing)
                io_w.flush_send()
                a.shutdown(2)

            # a size limit the message just fits (or fits with room) must
            # change nothing, whatever the segmentation
            ms = {None: None, 'exact': len(want), 'room': len(want) + 7,
                  'small': max(1, len(want) // 2)}[scn.get('max_size')]

            def reader(b=b, out=out, preload=preload, ms=ms):
                io_r = IO(b, ('r', 0))
                try:
                    if preload:
                        io_r.buffered_recv()
                        world.probe('preloaded-buffer')
                    out['data'] = DataReader(io_r, ms).recv()
                    out['left'] = io_r.recv_buffer
                except Exception as e:
                    out['exc'] = '%s: %s' % (type(e).__name__, e)
                    out['left'] = io_r.recv_buffer
            gw = gevent.spawn(writer)
            gr = gevent.spawn(reader)
            out['oversize'] = ms is not None and len(want) > ms
            started.append((gw, gr, b, out, mode, param, cap, preload))
            if scn.get('concurrent') and i + 1 < len(scn['variants']):
                # all variants at once, each on its own sockets and IO
                # objects: they share nothing
                continue
            for gw, gr, b, out, mode, param, cap, preload in started:
                if not _judge_variant(world, gw, gr, b, out, mode, param, cap,
                                      preload, want, trailing, violations,
                                      results):
                    break
            started = []
            if violations:
                break
        if msg == b'':
            world.probe('empty-message')
        if b'\n.' in msg or msg[:1] == b'.':
            world.probe('dot-leading-line')
        if b'\n.\r\n' in b'\n' + msg or b'\n.\n' in b'\n' + msg:
            world.probe('lone-dot-line')
        stripped = msg.replace(b'\r\n', b'')
        if b'\n' in stripped:
            world.probe('bare-lf')
        if b'\r' in stripped:
            world.probe('bare-cr')
        if msg and not msg.endswith(b'\r\n'):
            world.probe('no-final-newline')
        if trailing:
            world.probe('trailing-bytes')
        if len(parts) > 1:
            world.probe('multi-part')
        if any(v[0] in ('byte', 'crlf') for v in scn['variants']):
            world.probe('eod-split-across-reads')
        flags = (msg == b'', b'\n.' in msg, b'\n' in stripped, b'\r' in stripped,
                 bool(trailing))
        return {
            'violations': violations, 'digest': world.digest(),
            'nontrivial': (b'.' in msg or b'\n' in stripped or b'\r' in stripped)
            and len(scn['variants']) >= 2,
            'probes': dict(world.probes), 'faults': dict(world.faults),
            'states': [hash((flags, v[0])) for v in scn['variants']],
            'steps': world.loop.steps, 'sim_s': world.loop.elapsed(),
            'inconclusive': world.loop.cap_hit,
            'harness_errors': list(world.harness_errors),
            'summary': {'message': repr(msg[:60]), 'parts': len(parts),
                        'trailing': repr(trailing),
                        'variants': [v[0] for v in scn['variants']]},
        }
    finally:
        world.close()


def _judge_variant(world, gw, gr, b, out, mode, param, cap, preload, want,
                   trailing, violations, results):
    ok = world.wait(gr, 600.0)
    world.wait(gw, 10.0)
    if not ok:
        violations.append({'clause': 'C05/hung', 'detail': {},
                           'msg': 'DataReader.recv did not return '
                                  '(variant %s)' % mode})
        return False
    out['unread'] = b.unread()
    results.append(out)
    if out.get('oversize'):
        # over the limit: refused, but consumed exactly like any other
        # message - what follows the end-of-data line is left alone
        world.probe('over-size-limit')
        if not out.get('exc', '').startswith('MessageTooBig'):
            violations.append({
                'clause': 'C05/content', 'detail': {'what': 'oversize'},
                'msg': 'a message over the size limit gave %r instead of '
                       'MessageTooBig (variant %s %s)' % (
                           out.get('exc') or out.get('data', b'')[:40],
                           mode, param)})
            return False
        if out['left'] + out['unread'] != trailing:
            violations.append({
                'clause': 'C05/consumption', 'detail': {'what': 'oversize'},
                'msg': 'after an over-size message %r is left for the '
                       'command parser, expected %r (variant %s %s)' % (
                           (out['left'] + out['unread'])[:60],
                           trailing[:60], mode, param)})
            return False
        return True
    if 'exc' in out:
        violations.append({
            'clause': 'C05/content', 'detail': {'what': 'exception'},
            'msg': 'DataReader.recv raised %s (variant %s %s, '
                   'preload=%s)' % (out['exc'], mode, param, preload)})
        return False
    if out['data'] != want:
        violations.append({
            'clause': 'C05/content', 'detail': {},
            'msg': 'received %r, expected %r (variant %s %s cap=%s '
                   'preload=%s)' % (out['data'][:80], want[:80], mode,
                                    param, cap, preload)})
        return False
    if out['left'] + out['unread'] != trailing:
        violations.append({
            'clause': 'C05/consumption', 'detail': {},
            'msg': 'after the end-of-data line %r is left for the '
                   'command parser, expected %r (variant %s %s)' % (
                       (out['left'] + out['unread'])[:60],
                       trailing[:60], mode, param)})
        return False
    return True


def shrink_candidates(scn, clause):
    vs = scn['variants']
    if len(vs) > 1:
        for i in range(len(vs)):
            c = dict(scn)
            c['variants'] = [vs[i]]
            yield c
    parts = [bytes.fromhex(p) for p in scn['parts']]
    if len(parts) > 1:
        c = dict(scn)
        c['parts'] = [b''.join(parts).hex()]
        yield c
    msg = b''.join(parts)
    if len(parts) == 1 and len(msg) > 1:
        for i in range(len(msg)):
            c = dict(scn)
            c['parts'] = [(msg[:i] + msg[i + 1:]).hex()]
            yield c
    if scn['trailing']:
        c = dict(scn)
        c['trailing'] = ''
        yield c
