"""C04 - a crash at any point never loses an acknowledged message (disk queue).

Fault enumeration: for each seeded operation history (real Queue + real
DiskStorage on SimFS + scripted relay) a simulated process kill is placed
before and after the numbered file-system effects the history produces
(quick: a seeded sample of them; thorough: all); the directory as it was at
the kill is then booted by a fresh DiskStorage + Queue and must yield every
acknowledged, unsettled message intact and drive it to a final disposition."""
from __future__ import annotations

import copy
import hashlib
import random

import gevent
from gevent.event import Event

from sim.world import World, _reset_slimta_globals
from sim import fs as simfs
from harness import queue as hq
from . import queue_common as qc

ID = 'C04'
LEVEL = 'fault_enumeration'
LEVEL_TEXT = ('for each seeded queue history on the disk backend, a process '
              'kill is simulated before and after the numbered file-system '
              'effects (temp-file creation, each chunk write, rename, unlink) '
              'of that history - every one of them in the thorough tier, a '
              'seeded sample in the quick tier - and a fresh queue is booted '
              'on the surviving directory; histories themselves are sampled')
TECHNIQUE = ('deterministic simulation with crash-point enumeration: '
             'deterministic re-execution of a seeded history up to each '
             'numbered file-system effect, kill, restart on the snapshot')
RULE = ('seeded histories of 1-3 messages x 1-3 recipients (partial '
        'deliveries, retries, removals, interleaved) on DiskStorage with '
        'chunk sizes 24-256 bytes so that files take several writes; crash '
        'points = (effect number, before|after); one evaluation = one '
        'history with all its selected crash points; non-trivial = the '
        'history has >= 20 file-system effects and at least one crash point '
        'had an acknowledged, unsettled message; distinct = distinct digest '
        'over the event logs of all crash runs of the history')
COMPONENTS = {
    'real': ['slimta.queue.Queue', 'slimta.diskstorage.DiskStorage/DiskOps/'
             'AioFile', 'slimta.bounce.Bounce', 'slimta.envelope.Envelope',
             'pickle'],
    'stub': ['SimLoop', 'SimFS (os/mkstemp/pyaio; process-kill durability: '
             'completed system calls persist, an in-flight chunk write '
             'either landed or not)', 'ScriptRelay'],
}
ASSUMPTIONS = ['crash = process death (kernel page cache survives); power '
               'loss with unsynced data is not modelled: the code never '
               'calls fsync and the property speaks of the process dying']
BUDGET = {'quick': 1600, 'thorough': 6000}
QUICK_POINTS = 10
PROBES = ['crash-runs', 'kill-before-mkstemp', 'kill-before-write',
          'kill-after-write', 'kill-before-rename', 'kill-after-rename',
          'kill-before-unlink', 'kill-after-unlink', 'acked-unsettled-at-kill',
          'repeated-delivery-after-crash', 'orphan-files-at-restart',
          'kill-inside-enqueue', 'kill-inside-bookkeeping',
          'listing-overlaps-writes']
STATES_MEASURE = 'distinct (effect kind at kill, before/after, number of acked unsettled messages, files present by kind) tuples'
BIAS = {'backends': ['disk'], 'L': [1, 2, 2], 'waits': (0, 1, 1, 5),
        'max_msgs': 3, 'max_rcpts': 3, 'p_map': 0.5,
        'relay_lat': (0.0, 0.0, 0.001, 0.01, 0.05),
        'store_pools': [None, None, 1, 2], 'relay_pools': [None, None, 1],
        'bounce_queues': ['self'],
        # steer away from the known relative-index accumulation finding
        # (>= 2 partial rounds on a persistent backend; see C03): one partial
        # round per message, so the rest of the space is searched at full
        # strength
        'max_partial_rounds': 1}
STEP_CAP = 1500000


def _dry(scn):
    """number of file-system effects the history produces"""
    world = World(scn['sched_seed'], step_cap=STEP_CAP)
    try:
        obs = hq.new_obs()
        sysm = hq.build(world, scn, obs)
        _drive(world, scn, sysm, obs)
        world.run_for(scn['horizon'])
        fs = sysm['sub'].fs
        return fs.effects, list(fs.effect_log)
    finally:
        world.close()


def generate(seed, tier='quick'):
    scn = qc.generate(seed, ID, BIAS)
    rng = random.Random(seed ^ 0x9e3779b9)
    scn['chunk_size'] = rng.choice([24, 32, 64, 128, 256])
    scn['bounce_outcomes'] = []
    # long bodies so files span several chunks
    for m in scn['messages']:
        if rng.random() < 0.5:
            m['body'] = (bytes(rng.randrange(32, 127) for _ in
                               range(rng.randint(40, 400))) + b'\r\n').hex()
    # the queue's scheduler (and with it the start-up listing) may come up
    # a moment after the first messages are handed over, so that the listing
    # runs while a write is between its two files
    if rng.random() < 0.3:
        scn['short_writes'] = rng.choice([2, 3, 5])
    scn['start_delay'] = rng.choice([0.0, 0.0, 0.0005, 0.001, 0.002, 0.004,
                                     0.008])
    qc.finish(scn)
    n, log = _dry(scn)
    scn['n_effects'] = n
    pts = [[i, mode] for i in range(1, n + 1) for mode in ('before', 'after')]
    if tier != 'thorough' and len(pts) > QUICK_POINTS:
        pts = sorted(rng.sample(pts, QUICK_POINTS))
    scn['crash_points'] = pts
    return scn


def _drive(world, scn, sysm, obs):
    q = sysm['queue']
    if scn.get('start_delay'):
        world.probe('listing-overlaps-writes')
        gevent.spawn_later(scn['start_delay'], q.start)
    else:
        q.start()

    def do_enqueue(m):
        env = hq.make_envelope(m)
        world.log('ENQ', m['k'], 'call')
        res = q.enqueue(env)
        for e2, id in res:
            if not isinstance(id, BaseException):
                obs['accepted'][m['k']] = {'id': hq._norm(id),
                                           't': world.loop._now}
        world.log('ENQ', m['k'], 'returned')
    return [gevent.spawn_later(m.get('at', 0.0), do_enqueue, m)
            for m in scn['messages']]


def _capture(obs):
    """freeze what had happened by the kill"""
    return {
        'accepted': copy.deepcopy(obs['accepted']),
        'attempts': [dict(a, rcpts=list(a['rcpts']),
                          truth=dict(a['truth']) if a['truth'] is not None
                          else None) for a in obs['attempts']],
        'incr_done': [hq._norm(o['id']) for o in obs['store_ops']
                      if o['op'] == 'increment_attempts' and o['ok']],
        'incr_inflight': [hq._norm(o['id']) for o in obs['store_ops']
                          if o['op'] == 'increment_attempts' and
                          o['t1'] is None],
        'ops_inflight': [(o['op'], o['tag']) for o in obs['store_ops']
                         if o['t1'] is None],
        'bounces': list(obs['bounces']),
    }


def crash_run(scn, n, mode, debug=False):
    world = World(scn['sched_seed'], step_cap=STEP_CAP, debug=debug)
    v = []
    try:
        obs = hq.new_obs()
        sysm = hq.build(world, scn, obs)
        fs = sysm['sub'].fs
        killed = Event()
        box = {}

        def on_kill(snapshot):
            box['files'] = snapshot
            box['state'] = _capture(obs)
            box['at'] = world.loop._now
            killed.set()
        fs.kill_at = (n, mode)
        fs.on_kill = on_kill
        _drive(world, scn, sysm, obs)
        world.wait(killed, scn['horizon'])
        if 'files' not in box:
            return {'skipped': True, 'digest': world.digest(), 'v': [],
                    'steps': world.loop.steps, 'sim_s': world.loop.elapsed(),
                    'harness_errors': list(world.harness_errors)}
        kind = [e for e in fs.effect_log if e[0] == n][0][1]
        world.probe('kill-%s-%s' % (mode, kind))
        world.log('KILL', n, mode, kind)
        # ---- the old process is dead: nothing it does from here on counts
        world.detached = True
        for _round in range(12):
            alive = [g for g in list(world.loop.greenlets)
                     if not g.dead and g is not gevent.getcurrent()]
            if not alive:
                break
            for g in alive:
                world.kill_greenlet(g)
            for _ in range(4):
                gevent.sleep(0)
        alive = [g for g in world.loop.greenlets if not g.dead and
                 g is not gevent.getcurrent() and g.gr_frame is not None]
        if alive:
            world.harness_errors.append(
                'old-process greenlets survived the kill: %r' % (
                    world.blocked_report(),))
        _reset_slimta_globals()
        world.detached = False
        world.exceptions[:] = []
        world.harness_errors[:] = [h for h in world.harness_errors
                                   if 'Killed' not in h]
        st = box['state']
        # ---- boot a fresh queue on what survived
        fs2 = simfs.SimFS(world, label='fs2', latency=fs.latency)
        fs2.restore(box['files'])
        obs2 = hq.new_obs()
        counts = {}
        for a in st['attempts']:
            if isinstance(a['k'], int):
                counts[a['k']] = max(counts.get(a['k'], 0), a['n'] + 1)
        nb = sum(1 for a in st['attempts'] if not isinstance(a['k'], int))
        sysm2 = hq.build(world, scn, obs2, fs=fs2, counts=counts, bounces=nb)
        orphan = [p for p in box['files'] if p.startswith('/q/tmp/')]
        envs = set(p[len('/q/env/'):-4] for p in box['files']
                   if p.startswith('/q/env/'))
        metas = set(p[len('/q/meta/'):-5] for p in box['files']
                    if p.startswith('/q/meta/'))
        if orphan or envs != metas:
            world.probe('orphan-files-at-restart')
        sysm2['queue'].start()
        status = world.run_for(scn['horizon'])
        # ---- oracle
        msgs = {m['k']: m for m in scn['messages']}
        acked = st['accepted']
        if any(op == 'write' for op, tag in st['ops_inflight']):
            world.probe('kill-inside-enqueue')
        if any(op != 'write' for op, tag in st['ops_inflight']):
            world.probe('kill-inside-bookkeeping')
        loads = [o for o in obs2['store_ops'] if o['op'] == 'load']
        if not loads or not loads[0]['ok']:
            exc = loads[0].get('exc') if loads else 'no load'
            v.append({'clause': 'C04/load-raised', 'detail': {'exc': exc},
                      'msg': 'start-up load() of the fresh DiskStorage '
                             'failed (%s) after kill %s effect %d (%s); '
                             'files: %s' % (exc, mode, n, kind,
                                            sorted(box['files'])[:8])})
            loaded_ids = set()
        else:
            loaded_ids = set(i for ts, i in loads[0]['args'])
        final2 = sysm2['sub'].dump()
        bounced = qc.bounced_rcpts({'bounces': st['bounces'] +
                                    obs2['bounces']})
        n_unsettled = 0
        for k, acc in sorted(acked.items()):
            m = msgs[k]
            id = acc['id']
            old = [a for a in st['attempts'] if a['k'] == k]
            old_done = [a for a in old if a['t1'] is not None]
            old_open = [a for a in old if a['t1'] is None]
            settled_old = {}
            for a in old_done:
                for r, t in (a['truth'] or {}).items():
                    if t in ('ok', 'perm'):
                        settled_old[r] = t
            outstanding = [r for r in m['rcpts'] if r not in settled_old]
            # an attempt in flight at the kill may have reached the
            # downstream: its recipients are "possibly settled"
            maybe = set()
            for a in old_open:
                maybe.update(a['rcpts'])
            if not outstanding:
                continue
            n_unsettled += 1
            new = [a for a in obs2['attempts'] if a['k'] == k]
            # was the message finished (removed) by the old process? only if
            # every outstanding recipient was exhausted: retry exhaustion is a
            # final disposition too
            gave_up_old = _gave_up(scn, st, id, old_done)
            if gave_up_old:
                continue
            shifted = qc.index_shift(
                scn, {'store_ops': [o for o in obs['store_ops']
                                    if o['t1'] is not None and
                                    o['t1'] <= box['at']] +
                      obs2['store_ops']},
                {'m': m, 'acc': {'id': id}, 'attempts': old_done + new})
            if id not in loaded_ids and loads and loads[0]['ok']:
                v.append({'clause': 'C04/not-loaded', 'detail': _det(shifted),
                          'msg': 'message %d (id %s) was acknowledged and has '
                                 'outstanding recipients %r but the fresh '
                                 'queue did not find it after kill %s effect '
                                 '%d (%s); files: %s' % (
                                     k, id[:8], outstanding, mode, n, kind,
                                     sorted(p for p in box['files']
                                            if id in p))})
                continue
            env0 = hq.make_envelope(m)
            h0, b0 = env0.flatten()
            want = hashlib.sha1(h0 + b0).hexdigest()
            for a in new:
                if a['content'] != want or a['sender'] != m['sender']:
                    v.append({'clause': 'C04/content', 'detail': {},
                              'msg': 'message %d came back with different '
                                     'sender/content after the crash' % k})
                    break
            if new:
                first = new[0]
                c = st['incr_done'].count(id)
                ok_counts = {c}
                if id in st['incr_inflight']:
                    ok_counts.add(c + 1)
                if first['attempts_arg'] not in ok_counts:
                    v.append({'clause': 'C04/attempts', 'detail': {},
                              'msg': 'message %d resumed with attempt count '
                                     '%r; %d increment(s) had completed before '
                                     'the kill (%s in flight)' % (
                                         k, first['attempts_arg'], c,
                                         'one' if id in st['incr_inflight']
                                         else 'none')})
                missing = [r for r in outstanding if r not in first['rcpts']
                           and r not in maybe]
                if missing:
                    v.append({'clause': 'C04/recipient-lost',
                              'detail': _det(shifted),
                              'msg': 'message %d resumed without outstanding '
                                     'recipient %s (attempted %r)' % (
                                         k, missing[0], first['rcpts'])})
                if any(r in settled_old for r in first['rcpts']):
                    world.probe('repeated-delivery-after-crash')
            # final disposition in the new world
            if status == 'ok':
                delivered = set(settled_old)
                perm = set(r for r, t in settled_old.items() if t == 'perm')
                last_temp = set()
                for a in new:
                    if a['t1'] is None:
                        continue
                    last_temp = set()
                    for r, t in (a['truth'] or {}).items():
                        if t in ('ok', 'perm'):
                            delivered.add(r)
                            if t == 'perm':
                                perm.add(r)
                        elif t == 'temp':
                            last_temp.add(r)
                stored = final2.get(id)
                for r in outstanding:
                    if r in delivered or r in maybe:
                        continue
                    if stored is None and r in last_temp:
                        # given up after exhausting retries
                        if m['sender'] and r not in bounced.get(k, set()):
                            v.append({'clause': 'C04/lost',
                                      'detail': _det(shifted, what='no-bounce'),
                                      'msg': 'message %d recipient %s was '
                                             'given up after the crash without '
                                             'a bounce' % (k, r)})
                        continue
                    if stored is not None:
                        v.append({'clause': 'C04/not-resumed',
                                  'detail': _det(shifted),
                                  'msg': 'message %d recipient %s is still '
                                         'stored and outstanding at the '
                                         'horizon after kill %s effect %d (%s):'
                                         ' %d attempt(s) by the fresh queue; '
                                         'escaped %r' % (
                                             k, r, mode, n, kind, len(new),
                                             sorted(set((e[0], e[2]) for e in
                                                        world.exceptions))[:3])})
                    else:
                        v.append({'clause': 'C04/lost',
                                  'detail': _det(shifted, what='vanished'),
                                  'msg': 'message %d recipient %s: never '
                                         'delivered, never bounced and gone '
                                         'from storage after kill %s effect %d '
                                         '(%s)' % (k, r, mode, n, kind)})
                    break
        if n_unsettled:
            world.probe('acked-unsettled-at-kill')
        state = (kind, mode, n_unsettled, len(envs), len(metas),
                 bool(orphan))
        return {'skipped': False, 'digest': world.digest(), 'v': v,
                'steps': world.loop.steps, 'sim_s': world.loop.elapsed(),
                'probes': dict(world.probes), 'faults': dict(world.faults),
                'harness_errors': list(world.harness_errors),
                'state': hash(state), 'unsettled': n_unsettled,
                'inconclusive': status != 'ok'}
    finally:
        world.close()


def _det(shifted, **kw):
    if shifted:
        return {'backend': 'persistent',
                'history': 'multi-round-relative-index'}
    return kw


def _gave_up(scn, st, id, old_done):
    """old process exhausted retries for this message before the kill"""
    if not old_done:
        return False
    last = old_done[-1]
    if 'temp' not in (last['truth'] or {}).values():
        return False
    return st['incr_done'].count(id) >= len(scn['backoff']) + 1


def execute(scn, debug=False):
    violations = []
    h = hashlib.sha256()
    probes, faults, states = {}, {}, set()
    steps = 0
    sim_s = 0.0
    he = []
    runs = 0
    unsettled_any = False
    inconclusive = False
    for n, mode in scn['crash_points']:
        r = crash_run(scn, n, mode, debug=debug)
        runs += 1
        h.update(r['digest'].encode())
        steps += r['steps']
        sim_s += r['sim_s']
        he.extend(r['harness_errors'])
        if r.get('skipped'):
            he.append('crash point (%d,%s) was not reached on re-execution '
                      '(nondeterminism)' % (n, mode))
            continue
        for k, c in r['probes'].items():
            probes[k] = probes.get(k, 0) + c
        for k, c in r['faults'].items():
            faults[k] = faults.get(k, 0) + c
        states.add(r['state'])
        unsettled_any = unsettled_any or r['unsettled'] > 0
        inconclusive = inconclusive or r['inconclusive']
        for x in r['v']:
            x = dict(x)
            x['point'] = [n, mode]
            violations.append(x)
    probes['crash-runs'] = runs
    # one violation per signature
    uniq, seen = [], set()
    for x in violations:
        s = (x['clause'], repr(sorted((x.get('detail') or {}).items())))
        if s not in seen:
            seen.add(s)
            uniq.append(x)
    return {
        'violations': uniq, 'digest': h.hexdigest(),
        'nontrivial': scn['n_effects'] >= 20 and unsettled_any,
        'probes': probes, 'faults': faults, 'states': sorted(states),
        'steps': steps, 'sim_s': sim_s, 'inconclusive': inconclusive,
        'harness_errors': he,
        'summary': {'effects': scn['n_effects'],
                    'crash_points': len(scn['crash_points']),
                    'messages': len(scn['messages']),
                    'chunk_size': scn['chunk_size'],
                    'backoff': scn['backoff']},
    }


def shrink_candidates(scn, clause):
    pts = scn['crash_points']
    if len(pts) > 1:
        for p in pts:
            c = dict(scn)
            c['crash_points'] = [p]
            yield c
    # structural shrinking changes the effect numbering: re-derive the crash
    # points for the candidate (all of them; the violating one is found again)
    for c in qc.shrink_candidates(scn, clause):
        if c.get('backend') != 'disk':
            continue
        c = dict(c)
        try:
            n, log = _dry(c)
        except Exception:
            continue
        c['n_effects'] = n
        c['crash_points'] = [[i, m] for i in range(1, n + 1)
                             for m in ('before', 'after')]
        if len(c['crash_points']) <= 400:
            yield c
