"""C15 - every queue storage backend behaves like the same simple store.

One driver greenlet per message issues a seeded operation sequence against the
real backend on its fake substrate; drivers (and load() callers) overlap under
seeded latencies.  A reference store is advanced per id in program order;
load() is judged with interval semantics.  A separate fault-injecting
configuration uses a narrowly relaxed oracle."""
from __future__ import annotations

import errno
import random

import gevent

from sim.world import World
from harness import queue as hq

ID = 'C15'
RULE = ('seeded per-message operation sequences (write, set_timestamp, '
        'increment_attempts, one set_recipients_delivered round, get, remove, '
        'get-after-remove) for 2-5 messages run by concurrent driver '
        'greenlets plus concurrent load() calls, on dict/disk/redis/cloud '
        'backends over seeded-latency substrates; optional forced uuid4 '
        'repeat in a sequential phase; optional substrate fault plan '
        '(separate configuration, relaxed oracle); non-trivial = >= 2 '
        'operations on different ids overlapped in time or a load() '
        'overlapped a mutation; distinct = distinct event-log digest')
COMPONENTS = {
    'real': ['slimta.queue.dict.DictStorage',
             'slimta.diskstorage.DiskStorage/DiskOps/AioFile',
             'slimta.redisstorage.RedisStorage',
             'slimta.cloudstorage.CloudStorage', 'slimta.envelope.Envelope',
             'pickle'],
    'stub': ['SimLoop', 'SimFS (os/mkstemp/pyaio)', 'SimRedis',
             'SimObjectStore/SimMsgQueue (aws.py method set)'],
}
BUDGET = {'quick': 25000, 'thorough': 300000}
PROBES = ['overlap', 'load-overlaps-mutation', 'uuid-collision-injected',
          'get-after-remove', 'delivered-round', 'fault-config',
          'backend:dict', 'backend:disk', 'backend:redis', 'backend:cloud']
STATES_MEASURE = 'distinct (backend, per-message op-name sequence) vectors'
STEP_CAP = 400000
OPS = ['set_timestamp', 'increment_attempts', 'get', 'get', 'delivered',
       'increment_attempts', 'set_timestamp']


def generate(seed, tier='quick'):
    rng = random.Random(seed)
    backend = rng.choice(['dict', 'disk', 'disk', 'redis', 'redis', 'cloud',
                          'cloud'])
    n = rng.randint(2, 5)
    msgs = []
    for k in range(n):
        nr = rng.randint(1, 4) if rng.random() < 0.8 else rng.randint(9, 12)
        m = {'k': k, 'sender': rng.choice(['', 'm%d@s.example' % k]),
             'rcpts': ['r%d.%d@d.example' % (k, j) for j in range(nr)],
             'start': rng.choice([0.0, 0.0, 0.001, 0.003, 0.01]),
             'ts0': rng.choice([0.0, 5.0, 100.5])}
        if rng.random() < 0.3:
            m['body'] = (bytes(rng.randrange(256) for _ in
                               range(rng.randint(0, 300))) + b'\r\n').hex()
        ops = []
        did_deliver = False
        for _ in range(rng.randint(1, 7)):
            o = rng.choice(OPS)
            if o == 'delivered':
                if did_deliver or nr < 1:
                    continue
                did_deliver = True
                idx = rng.sample(range(nr), rng.randint(0, nr))
                if rng.random() < 0.5:
                    idx.sort()          # else: any order (the contract says
                                        # "list of indexes", not "sorted")
                ops.append({'op': 'delivered', 'idx': idx,
                            'as': rng.choice(['list', 'set', 'tuple'])})
            elif o == 'set_timestamp':
                ops.append({'op': o, 'ts': rng.choice([1.0, 2.5, 1e9,
                                                       1700000123.25])})
            else:
                ops.append({'op': o})
        if rng.random() < 0.6:
            ops.append({'op': 'remove'})
            if rng.random() < 0.8:
                ops.append({'op': 'get'})
        for o in ops:
            o['gap'] = rng.choice([0.0, 0.0, 0.0005, 0.002, 0.01])
        m['ops'] = ops
        msgs.append(m)
    loads = [rng.choice([0.0, 0.001, 0.004, 0.01, 0.03, 0.2])
             for _ in range(rng.randint(0, 3))]
    scn = {'property': ID, 'harness': 'storage', 'seed': seed,
           'sched_seed': rng.getrandbits(48), 'backend': backend,
           'messages': msgs, 'loads': loads,
           'chunk_size': rng.choice([32, 64, 256, 16384]),
           'uuid_collision': backend != 'cloud' and rng.random() < 0.15,
           'faults': None, 'horizon': 3.0}
    if backend == 'dict' and rng.random() < 0.4:
        scn['dict_kind'] = 'shelf'
    if backend == 'disk' and rng.random() < 0.35:
        # partial writes are not errors: the file ends up complete
        scn['short_writes'] = rng.choice([2, 3, 5])
    if backend == 'redis':
        # the key prefix is configuration: any string is legal
        scn['redis_prefix'] = rng.choice(['slimta:', 'slimta:', 'mailq-',
                                          'mx1.', 'slimta:inbound:', 'q'])
    if rng.random() < 0.25 and backend != 'dict':
        # separate configuration: substrate faults at chosen ordinals
        kinds = {'disk': ['EIO', 'ENOSPC'], 'redis': ['conn'],
                 'cloud': ['io']}[backend]
        scn['faults'] = [[rng.randint(1, 60), rng.choice(kinds)]
                         for _ in range(rng.randint(1, 3))]
    return scn


class Model(object):
    def __init__(self, m):
        self.m = m
        self.id = None
        self.live = {False}
        self.ts = set()
        self.ts_hist = []           # (seq_from, value)
        self.attempts = {0}
        self.delivered = {()}
        self.written_seq = None     # (s0, s1) of the write
        self.removed_seq = None     # (s0, s1) of the remove
        self.uncertain = False


def _flat(env):
    h, b = env.flatten()
    return h + b


def execute(scn, debug=False):
    world = World(scn['sched_seed'], step_cap=STEP_CAP, debug=debug)
    violations = []
    try:
        sub = hq.Substrate(world, scn)
        faults = scn.get('faults') or []
        for n, kind in faults:
            if scn['backend'] == 'disk':
                sub.fs.fail_at[n] = {'EIO': errno.EIO,
                                     'ENOSPC': errno.ENOSPC}[kind]
            elif scn['backend'] == 'redis':
                sub.redis.fail_at[n] = 'conn'
            else:
                sub.objects.fail_at[n] = 'io'
        if faults:
            world.probe('fault-config')
        store = sub.new_storage()
        be = scn['backend']
        models = {m['k']: Model(m) for m in scn['messages']}
        all_ids = []
        oplog = []              # for states/non-triviality
        inflight = [0]
        overlaps = [0]
        loads = []

        def seq():
            return world.counter('seq')

        def bad(clause, msg, **det):
            d = {'backend': be}
            d.update(det)
            if faults:
                d['faults'] = True
            violations.append({'clause': clause, 'detail': d, 'msg': msg})

        def call(k, name, fn, *args):
            """returns (ok, result, s0, s1)"""
            s0 = seq()
            inflight[0] += 1
            if inflight[0] > 1:
                overlaps[0] += 1
            world.log('OP', k, name, 'start')
            try:
                r = fn(*args)
                ok = True
            except Exception as e:
                r = e
                ok = False
            finally:
                inflight[0] -= 1
            s1 = seq()
            world.log('OP', k, name, 'end' if ok else type(r).__name__)
            oplog.append((k, name))
            return ok, r, s0, s1

        def driver(m):
            md = models[m['k']]
            k = m['k']
            gevent.sleep(m['start'])
            env = hq.make_envelope(m)
            content = _flat(env)
            ok, r, s0, s1 = call(k, 'write', store.write, env, m['ts0'])
            if not ok:
                if not faults:
                    bad('C15/raised', 'write raised %s: %s' % (
                        type(r).__name__, r), op='write',
                        exc=type(r).__name__)
                md.uncertain = True
                return
            if not isinstance(r, str):
                bad('C15/ids', 'write returned a %s id %r' % (
                    type(r).__name__, r), what='type')
            if r in all_ids:
                bad('C15/ids', 'write returned id %r twice' % (r,),
                    what='duplicate')
            all_ids.append(r)
            md.id = r
            md.live = {True}
            md.ts = {m['ts0']}
            md.ts_hist.append((s0, s1, m['ts0'], True))
            md.written_seq = (s0, s1)
            for o in m['ops']:
                if o['gap']:
                    gevent.sleep(o['gap'])
                op = o['op']
                if op == 'set_timestamp':
                    ok, r, s0, s1 = call(k, op, store.set_timestamp, md.id,
                                         o['ts'])
                    md.ts_hist.append((s0, s1, o['ts'], ok))
                    if ok:
                        md.ts = {o['ts']}
                    else:
                        md.ts = md.ts | {o['ts']}
                elif op == 'increment_attempts':
                    ok, r, s0, s1 = call(k, op, store.increment_attempts,
                                         md.id)
                    if ok:
                        want = set(a + 1 for a in md.attempts)
                        if r not in want:
                            bad('C15/attempts', 'message %d: '
                                'increment_attempts returned %r, reference '
                                'says %s' % (k, r, sorted(want)))
                            md.attempts = {r} if isinstance(r, int) else want
                        else:
                            md.attempts = {r}
                    else:
                        md.attempts = md.attempts | set(
                            a + 1 for a in md.attempts)
                elif op == 'delivered':
                    idx = o['idx']
                    arg = {'list': list, 'set': set, 'tuple': tuple}[o['as']](
                        idx)
                    world.probe('delivered-round')
                    ok, r, s0, s1 = call(k, 'set_recipients_delivered',
                                         store.set_recipients_delivered,
                                         md.id, arg)
                    if ok:
                        md.delivered = {tuple(sorted(idx))}
                    else:
                        md.delivered = md.delivered | {tuple(sorted(idx))}
                elif op == 'remove':
                    ok, r, s0, s1 = call(k, op, store.remove, md.id)
                    md.removed_seq = (s0, s1)
                    # under injected substrate errors a backend may swallow the
                    # error of a removal (DiskOps.delete_env ignores OSError):
                    # the narrow relaxation is "may or may not have taken
                    # effect", also when no exception was reported
                    md.live = {False} if ok and not faults else {True, False}
                elif op == 'get':
                    ok, r, s0, s1 = call(k, op, store.get, md.id)
                    if md.live == {False}:
                        world.probe('get-after-remove')
                        if ok:
                            bad('C15/removed', 'message %d: get after remove '
                                'returned a message' % k)
                        continue
                    if not ok:
                        if True in md.live and False not in md.live and \
                                not faults:
                            bad('C15/raised', 'message %d: get raised %s: %s'
                                % (k, type(r).__name__, r), op='get',
                                exc=type(r).__name__)
                        continue
                    try:
                        genv, att = r
                        genv.sender, genv.recipients, _flat(genv)
                    except Exception as e:
                        # not an (envelope, attempts) pair at all
                        bad('C15/get', 'message %d: get returned %.80r (%s: '
                            '%s)' % (k, r, type(e).__name__, e),
                            what='not-an-envelope')
                        continue
                    if genv.sender != m['sender'] or _flat(genv) != content:
                        bad('C15/get', 'message %d: get returned sender %r / '
                            'content differing from what was written' % (
                                k, genv.sender))
                    if att not in md.attempts:
                        bad('C15/attempts', 'message %d: get returned '
                            'attempts=%r, reference says %s' % (
                                k, att, sorted(md.attempts)))
                    allowed = []
                    for dl in md.delivered:
                        allowed.append([r_ for i, r_ in enumerate(m['rcpts'])
                                        if i not in dl])
                    if list(genv.recipients) not in allowed:
                        bad('C15/delivered', 'message %d: get returned '
                            'recipients %r, reference says %r' % (
                                k, list(genv.recipients), allowed))
                if not ok and not faults and op != 'get':
                    bad('C15/raised', 'message %d: %s raised %s: %s' % (
                        k, op, type(r).__name__, r), op=op,
                        exc=type(r).__name__)

        def loader(at):
            gevent.sleep(at)
            ok, r, s0, s1 = call('L', 'load', lambda: list(store.load()))
            loads.append((ok, r, s0, s1))

        # phase 0: forced uuid4 repeat, sequential
        if scn.get('uuid_collision'):
            def phase0():
                a = hq.make_envelope({'k': 90, 'sender': 'x@y', 'rcpts': ['z@y']})
                b = hq.make_envelope({'k': 91, 'sender': 'x@y', 'rcpts': ['w@y']})
                i1 = store.write(a, 1.0)
                world.uuid_repeat = world.counters.get('uuid', 0)
                i2 = store.write(b, 2.0)
                world.uuid_repeat = None
                if i1 == i2:
                    bad('C15/ids', 'two writes returned the same id when '
                        'uuid4 repeated', what='collision')
                else:
                    e1, _ = store.get(i1)
                    e2, _ = store.get(i2)
                    if e1.recipients != ['z@y'] or e2.recipients != ['w@y']:
                        bad('C15/cross-talk', 'colliding id allocation mixed '
                            'up two messages')
                store.remove(i1)
                store.remove(i2)
            g0 = gevent.spawn(phase0)
            world.wait(g0, 60.0)
            if not g0.successful() and not faults:
                bad('C15/raised', 'collision phase raised %r' % (g0.exception,),
                    op='phase0', exc=type(g0.exception).__name__)
        gs = [gevent.spawn(driver, m) for m in scn['messages']]
        gs += [gevent.spawn(loader, at) for at in scn['loads']]
        status = world.run_for(scn['horizon'])
        hung = [g for g in gs if not g.dead]
        if hung and status == 'ok':
            bad('C15/hung', 'storage operation still blocked at the horizon: '
                '%s' % world.blocked_report(5))
        for g in gs:
            if g.dead and not g.successful():
                violations.append({'clause': 'C15/harness', 'detail': {},
                                   'msg': 'driver died: %r' % (g.exception,)})
        # judge loads with interval semantics
        for ok, r, s0, s1 in loads:
            if not ok:
                if not faults:
                    bad('C15/raised', 'load raised %s: %s' % (
                        type(r).__name__, r), op='load',
                        exc=type(r).__name__)
                continue
            seen = {}
            for ts, id in r:
                if not isinstance(id, str):
                    bad('C15/ids', 'load yielded a %s id %r' % (
                        type(id).__name__, id), what='type')
                    id = hq._norm(id)
                if id in seen:
                    bad('C15/load', 'load listed id %r twice' % id,
                        what='duplicate')
                seen[id] = ts
            for k, md in models.items():
                if md.id is None:
                    continue
                w0, w1 = md.written_seq
                rm = md.removed_seq
                live_throughout = w1 < s0 and (rm is None or rm[0] > s1)
                gone_before = rm is not None and rm[1] < s0 and \
                    md.live == {False} and not faults
                not_yet = w0 > s1
                if md.id in seen:
                    if gone_before or not_yet:
                        bad('C15/load', 'load listed message %d which was %s'
                            % (k, 'removed before the call' if gone_before
                               else 'written after the call'), what='ghost')
                    else:
                        # timestamp must be one the id held during the call:
                        # value i may be visible if its op started before the
                        # load ended and the next op had not completed before
                        # the load started
                        hist = md.ts_hist
                        held = set()
                        for i, (q0, q1, val, okv) in enumerate(hist):
                            superseded = any(
                                h[3] and h[1] < s0 for h in hist[i + 1:])
                            if q0 <= s1 and not superseded:
                                held.add(val)
                        got = seen[md.id]
                        midwrite = not (w1 < s0)
                        if live_throughout and got not in held:
                            bad('C15/load', 'load reported timestamp %r for '
                                'message %d; it held %s during the call' % (
                                    got, k, sorted(held)), what='timestamp')
                elif live_throughout and not md.uncertain and True in md.live:
                    if not faults:
                        bad('C15/load', 'load omitted message %d which was '
                            'live throughout the call' % k, what='missing')
            known = set(md.id for md in models.values() if md.id)
            for id in seen:
                if id not in known and not faults:
                    bad('C15/load', 'load listed unknown id %r' % id,
                        what='unknown')
        if overlaps[0]:
            world.probe('overlap')
        for ok, r, s0, s1 in loads:
            for md in models.values():
                if md.written_seq and not (md.written_seq[1] < s0 or
                                           md.written_seq[0] > s1):
                    world.probe('load-overlaps-mutation')
                    break
        world.probe('backend:' + be)
        he = list(world.harness_errors)
        for v in violations:
            if v['clause'] == 'C15/harness':
                he.append(v['msg'])
        violations = [v for v in violations if v['clause'] != 'C15/harness']
        # de-duplicate by signature
        uniq, sigs = [], set()
        for v in violations:
            s = (v['clause'], repr(sorted(v['detail'].items())))
            if s not in sigs:
                sigs.add(s)
                uniq.append(v)
        states = set()
        per = {}
        for k, name in oplog:
            per.setdefault(k, []).append(name)
        for k, names in per.items():
            states.add(hash((be, tuple(names))))
        return {
            'violations': uniq, 'digest': world.digest(),
            'nontrivial': overlaps[0] > 0,
            'probes': dict(world.probes), 'faults': dict(world.faults),
            'states': sorted(states), 'steps': world.loop.steps,
            'sim_s': world.loop.elapsed(),
            'inconclusive': status != 'ok', 'harness_errors': he,
            'summary': {'backend': be, 'messages': len(scn['messages']),
                        'ops': [[o['op'] for o in m['ops']]
                                for m in scn['messages']][:3],
                        'loads': scn['loads'], 'faults': faults},
        }
    finally:
        world.close()


def shrink_candidates(scn, clause):
    msgs = scn['messages']
    if len(msgs) > 1:
        for i in range(len(msgs)):
            c = dict(scn)
            c['messages'] = msgs[:i] + msgs[i + 1:]
            yield c
    if scn['loads']:
        for i in range(len(scn['loads'])):
            c = dict(scn)
            c['loads'] = scn['loads'][:i] + scn['loads'][i + 1:]
            yield c
    if scn.get('uuid_collision'):
        c = dict(scn)
        c['uuid_collision'] = False
        yield c
    if scn.get('faults'):
        for i in range(len(scn['faults'])):
            c = dict(scn)
            c['faults'] = scn['faults'][:i] + scn['faults'][i + 1:]
            if c['faults']:
                yield c
    for i, m in enumerate(msgs):
        for j in range(len(m['ops'])):
            c = dict(scn)
            mm = dict(m)
            mm['ops'] = m['ops'][:j] + m['ops'][j + 1:]
            c['messages'] = msgs[:i] + [mm] + msgs[i + 1:]
            yield c
        if m.get('body'):
            c = dict(scn)
            mm = dict(m)
            mm.pop('body')
            c['messages'] = msgs[:i] + [mm] + msgs[i + 1:]
            yield c
        if m['start']:
            c = dict(scn)
            mm = dict(m)
            mm['start'] = 0.0
            c['messages'] = msgs[:i] + [mm] + msgs[i + 1:]
            yield c
