"""C19 - relay connection pools stay within bounds, strand no request, give
every caller the result of its own envelope, carry one message at a time per
connection and reset after a failed transaction."""
from __future__ import annotations

import random

import gevent

from sim.world import World, H
from harness import relay as hr

ID = 'C19'
RULE = ('2-10 caller greenlets invoking attempt() at seeded instants on a real '
        'StaticSmtpRelay / StaticLmtpRelay / HttpRelay with pool_size in '
        '{1,2,3,None} and idle_timeout in {None, finite}; each caller carries a '
        'distinct marker in sender, recipients and body; the downstream is '
        'scripted per connection and per marker: normal, slow, connection '
        'refused, dropped mid-transaction, rejected transaction, unsolicited '
        '421 while the connection idles; non-trivial = >= 3 callers overlapped '
        'and a bounded pool or a fault was involved; distinct = distinct '
        'event-log digest. One scenario in 16 drives the request deque on its '
        'own: 2-6 greenlets apply append/appendleft/extend/extendleft/pop/'
        'popleft/popleft-under-Timeout/remove/clear at seeded instants to a '
        'real BlockingDeque and to a plain deque in completion order; after '
        'every operation contents and returned items agree and the semaphore '
        'counts the length; at rest nobody waits while items exist')
COMPONENTS = {
    'real': ['slimta.relay.pool.RelayPool/RelayPoolClient',
             'slimta.util.deque.BlockingDeque',
             'slimta.relay.smtp.static.StaticSmtpRelay/StaticLmtpRelay',
             'slimta.relay.smtp.client.SmtpRelayClient',
             'slimta.relay.http.HttpRelay/HttpRelayClient',
             'slimta.smtp.client.Client'],
    'stub': ['SimLoop', 'SimSocket', 'scripted SMTP/LMTP server', 'scripted '
             'HTTP responder'],
}
BUDGET = {'quick': 25000, 'thorough': 300000}
PROBES = ['pool-size-1', 'pool-size-2', 'pool-size-3', 'pool-unbounded',
          'idle-reuse', 'request-waited-for-slot', 'connect-refused',
          'dropped-mid-transaction', 'rejected-transaction',
          'server-idle-421-requeue', 'rset-after-failure', 'kind:smtp',
          'kind:lmtp', 'kind:http', 'pool-at-bound', 'garbage-reply',
          'kind:deque', 'deque-pop-blocked', 'deque-timed-out',
          'deque-consumer-left-waiting']
STATES_MEASURE = 'distinct (kind, pool size, idle timeout?, number of callers, fault kinds) tuples'
STEP_CAP = 600000


def generate(seed, tier='quick'):
    if seed % 16 == 0:
        return _generate_deque(seed)
    rng = random.Random(seed)
    kind = rng.choice(['smtp', 'smtp', 'smtp', 'lmtp', 'http'])
    n = rng.randint(2, 10)
    callers = []
    t = 0.0
    for j in range(n):
        t += rng.choice([0.0, 0.0, 0.0, 0.005, 0.05, 0.5, 3.0])
        callers.append({'tag': 'c%d' % j, 'at': round(t, 3),
                        'nr': rng.randint(1, 2),
                        'fate': rng.choice(['ok', 'ok', 'ok', 'ok', 'slow',
                                            'reject', 'drop', 'rcpt-reject',
                                            'garbage'])})
    scn = {'property': ID, 'harness': 'pool', 'seed': seed, 'kind': kind,
           'sched_seed': rng.getrandbits(48),
           'pool_size': rng.choice([1, 1, 2, 2, 3, None]),
           'idle_timeout': rng.choice([None, None, 1.0, 4.0]),
           'callers': callers,
           'refuse': sorted(set(rng.randrange(6) for _ in range(
               rng.choice([0, 0, 1, 2])))),
           'idle_421': rng.choice([None, None, 0.5, 2.0]),
           'pipelining': rng.random() < 0.6,
           'timeouts': {'connect': 5.0, 'command': 8.0, 'data': 12.0,
                        'single': 15.0}}
    return scn


def _generate_deque(seed):
    """the request deque on its own: 2-6 greenlets applying every operation
    of BlockingDeque at seeded instants (the pool uses append, appendleft and
    popleft under an idle timeout; the others keep the same contract)"""
    rng = random.Random(H(seed, 'deque'))
    nxt = [0]

    def item():
        nxt[0] += 1
        return nxt[0]
    initial = [item() for _ in range(rng.choice([0, 0, 0, 1, 3]))]
    actors = []
    for a in range(rng.randint(2, 6)):
        consumer = rng.random() < 0.5
        ops = []
        for _ in range(rng.randint(1, 7)):
            d = rng.choice([0.0, 0.0, 0.0, 0.01, 0.5, 2.0])
            if consumer:
                op = rng.choice(['popleft', 'popleft', 'popleft', 'pop',
                                 'timed', 'timed'])
                arg = rng.choice([0.0, 0.01, 0.5, 2.0, 5.0]) \
                    if op == 'timed' else None
            else:
                op = rng.choice(['append', 'append', 'append', 'appendleft',
                                 'appendleft', 'extend', 'extendleft',
                                 'remove', 'clear', 'popleft'])
                if op in ('append', 'appendleft'):
                    arg = item()
                elif op in ('extend', 'extendleft'):
                    arg = [item() for _ in range(rng.randint(0, 3))]
                elif op == 'remove':
                    arg = rng.randint(1, max(1, nxt[0]))
                else:
                    arg = None
            ops.append([d, op, arg])
        actors.append({'ops': ops})
    return {'property': ID, 'harness': 'pool', 'seed': seed, 'kind': 'deque',
            'sched_seed': rng.getrandbits(48), 'initial': initial,
            'actors': actors}


def _execute_deque(scn, debug=False):
    from collections import deque as _deque
    from gevent import Timeout
    from slimta.util.deque import BlockingDeque
    world = World(scn['sched_seed'], step_cap=STEP_CAP, debug=debug)
    try:
        world.probe('kind:deque')
        q = BlockingDeque(scn['initial'])
        model = _deque(scn['initial'])
        violations = []
        waiting = {}
        nops = [0]
        blocked_once = [False]

        def bad(clause, msg, **det):
            det.setdefault('kind', 'deque')
            if not violations:
                violations.append({'clause': clause, 'detail': det,
                                   'msg': msg})

        def agree(a, k, op, arg):
            nops[0] += 1
            if list(q) != list(model):
                bad('C19/deque-model', 'after %s(%r) by actor %d (op %d) the '
                    'deque holds %r, a plain deque given the same operations '
                    'in the same order holds %r' % (op, arg, a, k, list(q),
                                                    list(model)), op=op)
            elif q.sema.counter != len(q):
                bad('C19/deque-count', 'after %s(%r) by actor %d (op %d) the '
                    'deque holds %d item(s) but its semaphore counts %d' % (
                        op, arg, a, k, len(q), q.sema.counter), op=op)

        def actor(a, ops):
            for k, (d, op, arg) in enumerate(ops):
                if d:
                    gevent.sleep(d)
                world.log('DQ', a, k, op, 'call')
                exp = got = None
                if op in ('pop', 'popleft', 'timed'):
                    if not len(model):
                        blocked_once[0] = True
                    waiting[a] = (k, op)
                    try:
                        if op == 'timed':
                            got = ('timeout',)
                            with Timeout(arg, False):
                                got = ('item', q.popleft())
                        else:
                            got = ('item', getattr(q, op)())
                    except IndexError as e:
                        got = ('raised', 'IndexError')
                    finally:
                        waiting.pop(a, None)
                    if got[0] == 'timeout':
                        world.probe('deque-timed-out')
                        world.log('DQ', a, k, op, 'timeout')
                        agree(a, k, op, arg)
                        continue
                    if got[0] == 'raised':
                        bad('C19/deque-model', '%s() by actor %d on an empty '
                            'deque raised %s instead of waiting for an item' %
                            (op, a, got[1]), op=op)
                        return
                    if not len(model):
                        bad('C19/deque-model', '%s() by actor %d returned %r '
                            'although every item put so far had already been '
                            'taken' % (op, a, got[1]), op=op)
                        return
                    exp = model.pop() if op == 'pop' else model.popleft()
                    world.log('DQ', a, k, op, 'got', got[1])
                    if exp != got[1]:
                        bad('C19/deque-model', '%s() by actor %d returned %r, '
                            'a plain deque given the same operations in the '
                            'same order returns %r' % (op, a, got[1], exp),
                            op=op)
                        return
                else:
                    r1 = r2 = None
                    try:
                        getattr(q, op)(*([] if arg is None else [arg]))
                    except ValueError:
                        r1 = 'ValueError'
                    try:
                        getattr(model, op)(*([] if arg is None else [arg]))
                    except ValueError:
                        r2 = 'ValueError'
                    world.log('DQ', a, k, op, r1 or 'done')
                    if r1 != r2:
                        bad('C19/deque-model', '%s(%r) by actor %d: %s, a '
                            'plain deque: %s' % (op, arg, a, r1 or 'returned',
                                                 r2 or 'returns'), op=op)
                        return
                agree(a, k, op, arg)
                if violations:
                    return
        gs = [gevent.spawn(actor, a, x['ops'])
              for a, x in enumerate(scn['actors'])]
        horizon = 60.0 + sum(o[0] + (o[2] if o[1] == 'timed' else 0)
                             for x in scn['actors'] for o in x['ops'])
        try:
            gevent.joinall(gs, timeout=horizon)
            status = 'ok'
        except gevent.hub.LoopExit:
            # every actor finished or waits for an item nobody will put
            status = 'cap' if world.loop.cap_hit else 'ok'
        if status == 'ok' and not violations:
            if waiting and len(q):
                bad('C19/stranded', 'actor(s) %s still wait in %s although '
                    'the deque holds %d item(s) (semaphore counts %d) and '
                    'nothing else will run' % (
                        sorted(waiting), sorted(set(v[1] for v in
                                                    waiting.values())),
                        len(q), q.sema.counter))
            elif q.sema.counter != len(q):
                bad('C19/deque-count', 'at rest the deque holds %d item(s) '
                    'but its semaphore counts %d' % (len(q), q.sema.counter),
                    op='rest')
        if waiting:
            world.probe('deque-consumer-left-waiting')
        if blocked_once[0]:
            world.probe('deque-pop-blocked')
        for g in gs:
            if not g.dead:
                g.kill(block=False)
        opset = sorted(set(o[1] for x in scn['actors'] for o in x['ops']))
        return {
            'violations': violations[:1], 'digest': world.digest(),
            'nontrivial': blocked_once[0] and len(scn['actors']) >= 2,
            'probes': dict(world.probes), 'faults': dict(world.faults),
            'states': [hash(('deque', len(scn['actors']), tuple(opset)))],
            'steps': world.loop.steps, 'sim_s': world.loop.elapsed(),
            'inconclusive': status != 'ok',
            'harness_errors': list(world.harness_errors),
            'summary': {'kind': 'deque', 'actors': len(scn['actors']),
                        'ops': nops[0], 'left': len(q),
                        'waiting': sorted(waiting)},
        }
    finally:
        world.close()


def execute(scn, debug=False):
    if scn['kind'] == 'deque':
        return _execute_deque(scn, debug)
    world = World(scn['sched_seed'], step_cap=STEP_CAP, debug=debug)
    try:
        kind = scn['kind']
        rs = dict(scn)
        rs['extensions'] = ['8BITMIME'] + (['PIPELINING'] if scn['pipelining']
                                           else [])
        conn = {}
        if scn['idle_421'] and kind != 'http':
            conn['idle_421'] = scn['idle_421']
        tx = {}
        http = {}

        def rng_of(c):
            # (keyed, so that the scenario document stays as it is)
            return random.Random(H(scn['sched_seed'], 'fate', c['tag']))
        for c in scn['callers']:
            f = c['fate']
            if kind == 'http':
                http[c['tag']] = {
                    'ok': {}, 'slow': {'delay': 1.5},
                    'reject': {'status': 500, 'reply_header':
                               '550; message="5.1.1 rejected"'},
                    'rcpt-reject': {'status': rng_of(c).choice([503, 503, 302]),
                                    'reply_header': rng_of(c).choice([
                                        '450; message="4.1.1 deferred"',
                                        '450; message="4.1.1 deferred"',
                                        None])},
                    'drop': {'act': 'disconnect'},
                    'garbage': {'act': 'garbage'}}[f]
            else:
                tx[c['tag']] = {
                    'ok': {}, 'slow': {'data': [{'delay': 1.5}]},
                    'reject': {'mail': [{'code': '550'}]},
                    'rcpt-reject': {'rcpt': [{'code': '550'}] +
                                    [{}] * (c['nr'] - 1)},
                    'drop': {'data': [{'act': 'disconnect'}]},
                    'garbage': {'data': [{'shape': 'garbage'}]}}[f]
        rs['conn_scripts'] = [conn]
        rs['tx_scripts'] = tx
        rs['http_by_tag'] = http if kind == 'http' else None
        rs['connect_plan'] = [{'act': 'refuse'} if k in scn['refuse'] else {}
                              for k in range(12)]
        relay, ds = hr.build_relay(world, rs)
        world.probe('kind:' + kind)
        world.probe('pool-unbounded' if not scn['pool_size'] else
                    'pool-size-%d' % scn['pool_size'])
        results = {}
        live_max = [0]
        deque_bad = []

        def watch():
            # sampled invariant: deque length == semaphore count
            while True:
                q = relay.queue
                if q.sema.counter != len(q):
                    deque_bad.append((world.now(), len(q), q.sema.counter))
                live_max[0] = max(live_max[0], ds.listener.live())
                gevent.sleep(0.02)
        wg = gevent.spawn(watch)

        def caller(c):
            gevent.sleep(c['at'])
            rcpts = ['%s.r%d@d.example' % (c['tag'], i)
                     for i in range(c['nr'])]
            env = hr.make_envelope('%s@s.example' % c['tag'], rcpts, c['tag'])
            t0 = world.loop._now
            res = hr.classify_result(lambda: relay._attempt(env, 0))
            res['t0'], res['t1'] = t0, world.loop._now
            res['rcpts'] = rcpts
            results[c['tag']] = res
        gs = [gevent.spawn(caller, c) for c in scn['callers']]
        horizon = scn['callers'][-1]['at'] + 400.0
        try:
            gevent.joinall(gs, timeout=horizon)
            status = 'ok'
        except gevent.hub.LoopExit:
            status = 'cap' if world.loop.cap_hit else 'exit'
        wg.kill(block=False)
        violations = []

        def bad(clause, msg, **det):
            det.setdefault('kind', kind)
            violations.append({'clause': clause, 'detail': det, 'msg': msg})
        pending = [c['tag'] for c in scn['callers'] if c['tag'] not in results]
        if pending and status == 'ok':
            bad('C19/stranded', '%d attempt() call(s) never returned (%s); '
                'pool has %d client(s), %d request(s) queued; blocked: %s' % (
                    len(pending), pending[:4], len(relay.pool),
                    len(relay.queue), world.blocked_report(4)),
                pool_size=scn['pool_size'], idle=bool(scn['idle_timeout']))
        ps = scn['pool_size']
        mx = max(live_max[0], ds.listener.max_live)
        if ps and mx > ps:
            bad('C19/bound', 'pool_size=%d but %d downstream connections were '
                'open at once' % (ps, mx), pool_size=ps)
        if ps and mx == ps:
            world.probe('pool-at-bound')
        if deque_bad:
            bad('C19/deque-count', 'BlockingDeque length %d but semaphore '
                'count %d at t=%.3f' % (deque_bad[0][1], deque_bad[0][2],
                                        deque_bad[0][0]))
        # ground truth per tag
        conns = []
        seen = set()
        for srv in ds.listener.servers:
            c = getattr(srv, 'conn', None)
            if c is not None and id(c) not in seen:
                seen.add(id(c))
                conns.append((c, srv))
        accepted = {}
        if kind == 'http':
            import base64
            for h in ds.http:
                for rq in h.requests:
                    try:
                        snd = base64.b64decode(rq['sender'] or b'').decode()
                    except Exception:
                        continue
                    tag = snd.split('@')[0]
                    if isinstance(rq['status'], int) and \
                            200 <= rq['status'] < 300:
                        accepted.setdefault(tag, set()).update(
                            base64.b64decode(r).decode() for r in rq['rcpts'])
                        if (b'X-Tag: ' + tag.encode()) not in rq['body']:
                            bad('C19/crossed-results', 'the request for %s '
                                'carried the content of another message' % tag)
        else:
            for c, srv in conns:
                if any(v == b'RSET' for _, v, _ in c.commands):
                    world.probe('rset-after-failure')
                for tr in c.transactions:
                    tag = tr.get('tag')
                    ok = bool(tr.get('eod')) and tr.get('done')
                    if ok:
                        if kind == 'lmtp':
                            for r, code in zip(tr['rcpts'], tr['eod']):
                                if code[0] == '2':
                                    accepted.setdefault(tag, set()).add(r)
                        elif tr['eod'][0][0] == '2':
                            accepted.setdefault(tag, set()).update(tr['rcpts'])
                        if tr.get('content') is not None and \
                                (b'X-Tag: ' + (tag or '?').encode()) not in \
                                tr['content']:
                            bad('C19/crossed-results', 'transaction of %s '
                                'carried the content of another message' % tag)
                        for r in tr['rcpts']:
                            if not r.startswith((tag or '?') + '.'):
                                bad('C19/crossed-results', 'transaction of %s '
                                    'carried recipient %s' % (tag, r))
                # recompute failure/reset discipline precisely
                _check_reset(c, bad)
        for c in scn['callers']:
            res = results.get(c['tag'])
            if res is None or violations:
                continue
            whole = res['whole']
            if whole and (whole.startswith('foreign:') or
                          whole.startswith('bad:')):
                bad('C19/crossed-results', 'caller %s got %s (%s)' % (
                    c['tag'], whole, res.get('msg')), what='foreign')
                break
            per = res['per']
            rep = {r: (per.get(r) if isinstance(per, dict) else whole)
                   for r in res['rcpts']} if per is None or \
                isinstance(per, dict) else dict(zip(res['rcpts'], per))
            acc = accepted.get(c['tag'], set())
            for r in res['rcpts']:
                if rep.get(r) == 'ok' and r not in acc:
                    bad('C19/crossed-results', 'caller %s was told %s is '
                        'delivered but the downstream never accepted it for '
                        'that message (accepted for this caller: %r)' % (
                            c['tag'], r, sorted(acc)), what='false-success')
                    break
                if rep.get(r) != 'ok' and r not in acc and c['fate'] in (
                        'ok', 'slow') and not scn['refuse'] and \
                        not scn['idle_421']:
                    bad('C19/no-reset', 'caller %s, for which no fault was '
                        'scripted, was told %s failed (%s: %r) and the '
                        'downstream never saw its message: it was handed a '
                        'connection another caller\'s failure had left '
                        'unusable' % (c['tag'], r, rep.get(r),
                                      res.get('reply')), what='contaminated')
                    break
                if rep.get(r) != 'ok' and r in acc and c['fate'] in (
                        'ok', 'slow') and not scn['refuse'] and \
                        not scn['idle_421']:
                    bad('C19/crossed-results', 'caller %s was told %s failed '
                        '(%s) although the downstream accepted it and no '
                        'fault was scripted for this caller' % (
                            c['tag'], r, rep.get(r)), what='false-failure')
                    break
        fates = set(c['fate'] for c in scn['callers'])
        if 'drop' in fates:
            world.probe('dropped-mid-transaction')
        if 'garbage' in fates:
            world.probe('garbage-reply')
        if 'reject' in fates or 'rcpt-reject' in fates:
            world.probe('rejected-transaction')
        if scn['refuse'] and ds.listener and len(ds.listener.client_socks) < \
                world.counters.get('connect:ds', 0):
            world.probe('connect-refused')
        if world.faults.get('server-idle-421'):
            world.probe('server-idle-421-requeue')
        if ds.listener and len(ds.listener.client_socks) < len(results):
            world.probe('idle-reuse')
        waits = sorted((r['t0'], r['t1']) for r in results.values())
        if ps and len(waits) > ps and any(
                b - a > 1.0 for a, b in waits):
            world.probe('request-waited-for-slot')
        overlapping = sum(1 for c in scn['callers'] if c['at'] <
                          scn['callers'][0]['at'] + 0.1)
        return {
            'violations': violations[:2], 'digest': world.digest(),
            'nontrivial': overlapping >= 3 and (bool(ps) or fates - {'ok'} != set()),
            'probes': dict(world.probes), 'faults': dict(world.faults),
            'states': [hash((kind, ps, bool(scn['idle_timeout']),
                             len(scn['callers']), tuple(sorted(fates))))],
            'steps': world.loop.steps, 'sim_s': world.loop.elapsed(),
            'inconclusive': status != 'ok',
            'harness_errors': list(world.harness_errors),
            'summary': {'kind': kind, 'pool_size': ps,
                        'idle_timeout': scn['idle_timeout'],
                        'callers': [(c['tag'], c['at'], c['fate'])
                                    for c in scn['callers']],
                        'max_live': mx,
                        'results': {k: (v['whole'], v['per'])
                                    for k, v in list(results.items())[:6]}},
        }
    finally:
        world.close()


def _check_reset(c, bad):
    """on one downstream connection: one transaction at a time, and a
    transaction that failed (MAIL or DATA rejected, content refused) must be
    followed by RSET before the next MAIL"""
    state = 'idle'       # idle | open | failed
    for (t, verb, arg) in c.commands:
        if verb == b'MAIL':
            if state == 'open':
                bad('C19/interleaved', 'MAIL %r arrived inside a transaction '
                    'that was still open on the same connection' % arg[:30])
                return
            if state == 'failed':
                bad('C19/no-reset', 'MAIL %r followed a failed transaction on '
                    'the same connection without RSET in between' % arg[:30])
                return
            state = 'open'
        elif verb == b'*FAILED':
            state = 'failed'
        elif verb == b'*DONE':
            state = 'idle'
        elif verb in (b'RSET', b'EHLO', b'LHLO', b'HELO'):
            state = 'idle'


def shrink_candidates(scn, clause):
    if scn['kind'] == 'deque':
        acts = scn['actors']
        if len(acts) > 1:
            for i in range(len(acts)):
                yield dict(scn, actors=acts[:i] + acts[i + 1:])
        for i, x in enumerate(acts):
            for k in range(len(x['ops'])):
                if len(x['ops']) > 1:
                    yield dict(scn, actors=acts[:i] + [
                        {'ops': x['ops'][:k] + x['ops'][k + 1:]}] +
                        acts[i + 1:])
                if x['ops'][k][0]:
                    o = list(x['ops'][k])
                    o[0] = 0.0
                    yield dict(scn, actors=acts[:i] + [
                        {'ops': x['ops'][:k] + [o] + x['ops'][k + 1:]}] +
                        acts[i + 1:])
        if scn['initial']:
            yield dict(scn, initial=[])
        return
    cs = scn['callers']
    if len(cs) > 1:
        for i in range(len(cs)):
            c = dict(scn)
            c['callers'] = cs[:i] + cs[i + 1:]
            yield c
    for i, cc in enumerate(cs):
        if cc['fate'] != 'ok':
            c = dict(scn)
            c['callers'] = cs[:i] + [dict(cc, fate='ok')] + cs[i + 1:]
            yield c
        if cc['at']:
            c = dict(scn)
            c['callers'] = cs[:i] + [dict(cc, at=0.0)] + cs[i + 1:]
            yield c
    if scn['refuse']:
        c = dict(scn)
        c['refuse'] = []
        yield c
    if scn['idle_421']:
        c = dict(scn)
        c['idle_421'] = None
        yield c
