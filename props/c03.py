"""C03 - settled recipients are never attempted again; one attempt in flight
per message."""
from __future__ import annotations

from . import queue_common as qc

ID = 'C03'
RULE = ('as C01 but biased to partial delivery: 2-4 recipients, >= 2 retry '
        'rounds, per-recipient mappings every round, backoff values from '
        '{0, 0, 1, 1, 5}, store/relay pools in {None,1,2,3}, duplicated and '
        'delayed storage announcements (redis list, cloud message queue), '
        'flush() calls; non-trivial = some message had >= 2 attempts and a '
        'per-recipient result; distinct = distinct event-log digest')
COMPONENTS = qc.COMPONENTS
BUDGET = {'quick': 15000, 'thorough': 400000}
PROBES = ['retry-round', 'round>=3', 'per-recipient-result', 'mixed-outcome',
          'backoff-0-retry', 'announcement', 'flush-call',
          'backend:dict', 'backend:disk', 'backend:redis', 'backend:cloud',
          'backend:cloud+mq']
STATES_MEASURE = qc.__doc__ and ('distinct (backend, per-message sequence of '
                                 '(result shape, sorted ground-truth outcomes))')
BIAS = {'p_split': 0.25, 'min_rcpts': 2, 'max_rcpts': 4, 'L': [1, 2, 2, 3, 3],
        'waits': (0, 0, 0, 1, 1, 5), 'p_map': 0.8,
        'verdicts': ['ok', 'none', 'temp', 'temp', 'temp', 'perm'],
        'whole': ['temp', 'temp', 'other', 'none', 'perm'],
        'store_pools': [None, None, 1, 2, 3], 'relay_pools': [None, None, 1, 2],
        'n_flush': [0, 0, 0, 1, 2], 'p_null_sender': 0.1,
        'relay_lat': (0.0, 0.0, 0.0, 0.001, 0.01, 0.3)}


def generate(seed, tier='quick'):
    return qc.generate(seed, ID, BIAS)


def judge(scn, obs, world):
    v = []
    be = scn['backend']
    an = qc.analyse(scn, obs)
    if any(w == 0 for w in scn['backoff']):
        world.probe('backoff-0-retry')
    if obs['flushes']:
        world.probe('flush-call')
    for k, a in sorted(an.items()):
        shifted = [False]

        def det(**kw):
            if shifted[0]:
                return {'backend': 'persistent',
                        'history': 'multi-round-relative-index'}
            d = {'backend': be}
            d.update(kw)
            return d
        atts = a['attempts']
        settled = {}          # rcpt -> index of attempt that settled it
        done = False
        for i, att in enumerate(atts):
            shifted[0] = qc.index_shift(scn, obs, a, before=att['t0'])
            # (2) one attempt in flight: any earlier attempt still running
            for j in range(i):
                e = atts[j]
                if e['t1'] is None or e['end_seq'] > att['start_seq']:
                    v.append({'clause': 'C03/concurrent-attempts',
                              'detail': det(),
                              'msg': 'message %d: attempt #%d started while '
                                     'attempt #%d was still in progress' % (
                                         k, i, j)})
                    done = True
                    break
            if done:
                break
            # (1) settled recipients never attempted again
            again = [r for r in att['rcpts'] if r in settled]
            if again:
                d = det()
                if not shifted[0] and racing_fetch(
                        obs, a, atts[settled[again[0]][0]], att):
                    d = {'race': 'first-attempt-completes-before-write-returns'}
                v.append({'clause': 'C03/reattempt-settled', 'detail': d,
                          'msg': 'message %d attempt #%d includes %s, settled '
                                 'by attempt #%d (%s); recipients %r' % (
                                     k, i, again[0], settled[again[0]][0],
                                     settled[again[0]][1], att['rcpts'])})
                break
            # (3) every outstanding recipient is in the attempt
            outstanding = [r for r in a['m']['rcpts'] if r not in settled]
            missing = [r for r in outstanding if r not in att['rcpts']]
            if missing:
                v.append({'clause': 'C03/outstanding-dropped', 'detail': det(),
                          'msg': 'message %d attempt #%d omits outstanding '
                                 'recipient %s; recipients %r' % (
                                     k, i, missing[0], att['rcpts'])})
                break
            if att['t1'] is not None:
                for r, t in (att['truth'] or {}).items():
                    if t in ('ok', 'perm'):
                        settled[r] = (i, t)
    return v


def racing_fetch(obs, a, prev, att):
    """True exactly for the recorded residual race: the storage announced the
    message through wait() before write() had returned, the running queue
    fetched and ran a first attempt (`prev`) inside that window, and
    enqueue(), on getting the id back, started `att` from its in-memory
    envelope (no storage fetch since `prev` began, attempt count 0).  Any
    other re-attempt - in particular one dispatched from a fetch that
    overlapped the recording of a previous outcome - is NOT this finding.
    Pure function of the recorded history."""
    if a['acc'] is None or att is a['attempts'][0]:
        return False
    if att['attempts_arg'] != 0:
        return False
    id = a['acc']['id']
    ops = [o for o in obs['store_ops'] if o['id'] is not None and
           hq_norm(o['id']) == id]
    gets = [o for o in ops if o['op'] == 'get' and o['s1'] is not None and
            o['ok'] and o['s1'] < att['start_seq'] and
            o['s1'] > prev['start_seq']]
    if gets:
        return False            # dispatched from a fetch, not by enqueue()
    writes = [o for o in ops if o['op'] == 'write' and o['s1'] is not None]
    if not writes:
        return False
    # enqueue() registers ids only after *all* writes of the call (one per
    # envelope a split policy produced) have returned: take the last sibling
    k = writes[0].get('k')
    sib = [o for o in obs['store_ops'] if o['op'] == 'write' and
           o['s1'] is not None and isinstance(o.get('k'), int) and
           isinstance(k, int) and k >= 100 and o['k'] >= 100 and
           o['k'] // 100 == k // 100 and o['tag'] == writes[0]['tag']]
    last = max([writes[0]['s1']] + [o['s1'] for o in sib])
    # the first attempt ran while enqueue() was still waiting for its writes
    return last > prev['start_seq'] and last < att['start_seq']


def hq_norm(id):
    return id.decode('ascii') if isinstance(id, bytes) else id


def execute(scn, debug=False):
    return qc.execute(scn, judge, debug=debug)


shrink_candidates = qc.shrink_candidates
