"""Shared generator, executor and analysis for the queue properties
(C01, C03, C12, C13)."""
from __future__ import annotations

import random
import re

from sim.world import World
from harness import queue as hq

STEP_CAP = 150000      # (the largest fault-free scenario seen takes ~6 500 steps)
WAITS = (0, 0, 1, 1, 2, 5, 30, 300)
COMPONENTS = {
    'real': ['slimta.queue.Queue', 'slimta.queue.dict.DictStorage',
             'slimta.diskstorage.DiskStorage/AioFile/DiskOps',
             'slimta.redisstorage.RedisStorage',
             'slimta.cloudstorage.CloudStorage', 'slimta.bounce.Bounce',
             'slimta.envelope.Envelope', 'slimta.relay.Relay (base)',
             'gevent Pool/Event/Semaphore/Greenlet'],
    'real_in_some_runs': ['slimta.relay.pipe.PipeRelay over a fake subprocess '
                          'module (C01: 2 runs in 5, both per-recipient '
                          'modes)',
                          'slimta.relay.smtp.static.StaticSmtpRelay / '
                          'StaticLmtpRelay with RelayPool, SmtpRelayClient, '
                          'Client against the scripted SMTP/LMTP server (C01: '
                          '2 runs in 7)'],
    'stub': ['SimLoop (event loop, clock)', 'SimFS (os/mkstemp/pyaio)',
             'SimRedis (redis client)', 'SimObjectStore/SimMsgQueue (aws.py '
             'method set)', 'ScriptRelay (scripted Relay subclass)'],
}


def gen_outcomes(rng, rcpts, L, bias):
    """one message's attempt scripts, following a reference of which
    recipients stay outstanding"""
    out = []
    outstanding = list(rcpts)
    partial_rounds = 0
    for n in range(L + 2):
        if not outstanding:
            break
        lat = rng.choice(bias.get('relay_lat', hq.LAT_RELAY))
        c = rng.random()
        pm = bias.get('p_map', 0.45)
        if partial_rounds >= bias.get('max_partial_rounds', 99):
            pm = 0.0
        if len(outstanding) >= 1 and c < pm:
            per = {}
            nxt = []
            for r in outstanding:
                vd = rng.choice(bias.get('verdicts',
                                         ['ok', 'none', 'temp', 'temp',
                                          'perm']))
                var = rng.choice([0, 0, 1, 2, 5])
                per[r] = [vd, var]
                if vd == 'temp':
                    nxt.append(r)
            spec = {'t': 'seq' if rng.random() < 0.2 else 'map', 'r': per,
                    'lat': lat}
            if spec['t'] == 'map' and rng.random() < 0.4:
                spec['order'] = rng.choice(['reverse', 'domain', 'rotate'])
            if spec['t'] == 'seq' and rng.random() < 0.4:
                spec['as'] = 'tuple'
            out.append(spec)
            if nxt and len(nxt) < len(outstanding):
                partial_rounds += 1
            outstanding = nxt
        else:
            t = rng.choice(bias.get('whole', ['none', 'reply', 'temp', 'temp',
                                              'perm', 'other']))
            out.append({'t': t, 'v': rng.choice([0, 1, 5]), 'lat': lat})
            if t in ('none', 'reply', 'perm'):
                outstanding = []
    return out


def generate(seed, prop, bias):
    rng = random.Random(seed)
    backend = rng.choice(bias.get('backends', ['dict', 'dict', 'disk', 'disk',
                                               'redis', 'redis', 'cloud',
                                               'cloud+mq']))
    L = rng.choice(bias.get('L', [0, 1, 1, 2, 2, 3]))
    table = [rng.choice(bias.get('waits', WAITS)) for _ in range(L)]
    nmsg = rng.randint(1, bias.get('max_msgs', 3))
    rk = rng.choice(bias.get('relays', ['script']))
    # a queue process starting over a backlog on an announcing backend: every
    # stored message is listed by load() *and* announced by wait(), all are
    # due at once, and the store pool is small
    burst = bias.get('hows') and \
        rng.random() < bias.get('p_startup_burst', 0.0)
    if burst:
        backend = rng.choice(['redis', 'redis', 'cloud+mq'])
        nmsg = rng.randint(3, 5)
    msgs = []
    outcomes = {}
    scn_write_fail = []
    t = 0.0
    # a queue policy applies to every message enqueued through that queue
    split_all = rng.random() < bias.get('p_split', 0.0) and \
        rk not in ('smtp', 'lmtp')      # (the scripted server tells messages
                                        # apart by their sender)
    for k in range(nmsg):
        nr = rng.randint(bias.get('min_rcpts', 1), bias.get('max_rcpts', 4))
        sender = '' if rng.random() < bias.get('p_null_sender', 0.15) \
            else 'm%d@s.example' % k
        rcpts = ['r%d.%d@d%d.example' % (k, j, j % 2) for j in range(nr)]
        t += rng.choice([0.0, 0.0, 0.0, 0.001, 0.5, 3.0])
        m = {'k': k, 'sender': sender, 'rcpts': rcpts, 'at': t}
        if rng.random() < bias.get('p_8bit', 0.2):
            m['body'] = (b'caf\xc3\xa9 \xff\xfe line\r\n.\r\n..dots\r\n' +
                         bytes(rng.randrange(256) for _ in
                               range(rng.randint(0, 40))) + b'\r\n').hex()
        hows = bias.get('hows')
        if hows:
            h = rng.choice(hows)
            if burst:
                h = 'preload'
            if h == 'announce' and backend not in ('redis', 'cloud+mq'):
                h = 'enqueue'
            if h != 'enqueue':
                m['how'] = h
            if h == 'preload':
                m['due_in'] = rng.choice([-5.0, 0.0, 0.0, 2.0, 40.0])
                if burst:
                    m['due_in'] = rng.choice([-5.0, -5.0, 0.0])
        msgs.append(m)
        outcomes[str(k)] = gen_outcomes(rng, rcpts, L, bias)
        if nr >= 2 and 'how' not in m and split_all:
            # a RecipientSplit policy turns this enqueue into one stored
            # message per recipient; each is judged as a message of its own
            m['split'] = True
            for j, r in enumerate(rcpts):
                kk = 100 * (k + 1) + j
                msgs.append({'k': kk, 'sender': sender, 'rcpts': [r],
                             'at': t, 'how': 'sub', 'body': m.get('body')})
                if msgs[-1]['body'] is None:
                    msgs[-1].pop('body')
                outcomes[str(kk)] = gen_outcomes(rng, [r], L, bias)
            if rng.random() < 0.3:
                # the storage refuses one of the copies (QueueError): the
                # others were accepted all the same and are owed delivery
                scn_write_fail.append(100 * (k + 1) + rng.randrange(nr))
    scn = {
        'property': prop, 'harness': 'queue', 'seed': seed,
        'sched_seed': rng.getrandbits(48),
        'backend': backend, 'backoff': table,
        'store_pool': rng.choice(bias.get('store_pools', [None, None, 1, 2, 3]))
        if not burst else rng.choice([1, 1, 2]),
        'relay_pool': rng.choice(bias.get('relay_pools', [None, None, 1, 2])),
        'bounce_queue': rng.choice(bias.get('bounce_queues',
                                            ['self', 'self', 'separate'])),
        'messages': msgs, 'outcomes': outcomes,
        'bounce_outcomes': [],
        'ops': [],
        'chunk_size': rng.choice([64, 256, 1024, 16384]),
    }
    if scn_write_fail:
        scn['write_fail'] = scn_write_fail
    if rng.random() < bias.get('p_slow_store', 0.0) and backend != 'dict':
        # a slow storage: operations take tenths of a second, so that
        # whatever waits on a full pool waits for long
        scn['store_lat'] = [0.0, 0.1, 0.3, 0.6]
    if backend == 'dict' and rng.random() < bias.get('p_shelf', 0.3):
        scn['dict_kind'] = 'shelf'
    if backend == 'redis' and rng.random() < 0.3:
        scn['redis_prefix'] = rng.choice(['mailq-', 'mx1.', 'slimta:in:'])
    if rk != 'script':
        scn['relay'] = rk
        if rk in ('smtp', 'lmtp'):
            # the scripted server recognises a message by its sender
            for m in msgs:
                m['sender'] = 'm%d@s.example' % m['k']
            scn['relay_pipelining'] = rng.random() < 0.7
            scn['relay_pool_size'] = rng.choice([None, 1, 2])
            scn['relay_idle'] = rng.choice([None, None, 2.0])
        if rk == 'pipe1':
            # one process per message: single-recipient messages (what a
            # RecipientSplit policy in front of such a relay produces)
            for m in msgs:
                m['rcpts'] = m['rcpts'][:1]
    if backend == 'cloud+mq':
        scn['mq_dup_every'] = rng.choice([0, 0, 2, 3])
        scn['poll_pause'] = rng.choice([0.5, 1.0, 5.0])
    nb = rng.randint(0, 2)
    for _ in range(nb):
        scn['bounce_outcomes'].append(
            {'t': rng.choice(['none', 'perm', 'temp', 'temp']),
             'lat': rng.choice([0.0, 0.01])})
    for _ in range(rng.choice(bias.get('n_flush', [0]))):
        scn['ops'].append({'op': 'flush',
                           'at': rng.choice([0.0, 0.2, 1.0, 4.0, 10.0, 50.0])})
    finish(scn)
    return scn


def finish(scn):
    """(re)compute the horizon from the scenario's own content"""
    table = scn['backoff']
    n = len(scn['messages'])
    t_last = max([m.get('at', 0.0) for m in scn['messages']] +
                 [op['at'] for op in scn.get('ops') or []] + [0.0])
    due_max = max([m.get('due_in', 0.0) for m in scn['messages']] + [0.0])
    scn['horizon'] = (t_last + due_max + 2 * sum(table) +
                      (len(table) + 3) * (n + 3) * 3.0 + 120.0)
    return scn


def execute(scn, judge, debug=False, nontrivial_fn=None):
    """run the scenario, apply judge(scn, obs, world) -> violations"""
    world = World(scn['sched_seed'], step_cap=STEP_CAP, debug=debug)
    try:
        obs = hq.run(world, scn)
        seqfix(obs)
        violations = judge(scn, obs, world)
        an = analyse(scn, obs)
        for k, a in an.items():
            if len(a['attempts']) >= 2:
                world.probe('retry-round')
            if len(a['attempts']) >= 3:
                world.probe('round>=3')
            for att in a['attempts']:
                if att['shape'] in ('map', 'seq'):
                    world.probe('per-recipient-result')
                if att['shape'] == 'seq':
                    world.probe('sequence-shaped-result')
                if att['shape'] == 'other':
                    world.probe('unexpected-exception-path')
                tv = set((att['truth'] or {}).values())
                if len(tv) >= 2:
                    world.probe('mixed-outcome')
            if a['given_up']:
                world.probe('retry-exhaustion')
        if obs['bounces']:
            world.probe('bounce')
        world.probe('backend:' + scn['backend'])
        nontrivial = any(len(a['attempts']) >= 2 for a in an.values())
        if nontrivial_fn is not None:
            nontrivial = bool(nontrivial_fn(scn, obs, an))
        states = set()
        for k, a in an.items():
            st = tuple((att['shape'], tuple(sorted(
                (att['truth'] or {}).values()))) for att in a['attempts'])
            states.add(hash((scn['backend'], st)))
        he = list(world.harness_errors)
        if obs['status'] == 'cap':
            pass
        return {
            'violations': violations, 'digest': world.digest(),
            'nontrivial': nontrivial, 'probes': dict(world.probes),
            'faults': dict(world.faults), 'states': sorted(states),
            'steps': world.loop.steps, 'sim_s': world.loop.elapsed(),
            'inconclusive': obs['status'] != 'ok',
            'harness_errors': he,
            'summary': {'backend': scn['backend'], 'backoff': scn['backoff'],
                        'messages': len(scn['messages']),
                        'attempts': [(a['k'], a['n'], a['shape'],
                                      len(a['rcpts'])) for a in
                                     obs['attempts']][:12],
                        'bounces': len(obs['bounces'])},
        }
    finally:
        world.close()


def seqfix(obs):
    """give attempts a global (start, end) order from list position +
    completion time.  attempts list is in start order already."""
    for i, a in enumerate(obs['attempts']):
        a['i'] = i


# ------------------------------------------------------------------ analysis
def analyse(scn, obs):
    """per original message: ordered attempts, settled sets, given-up flag"""
    msgs = {m['k']: m for m in scn['messages']}
    out = {}
    for k, m in msgs.items():
        if m.get('split'):
            continue            # judged through its single-recipient parts
        atts = [a for a in obs['attempts'] if a['k'] == k]
        acc = obs['accepted'].get(k)
        delivered, perm, last_temp = set(), set(), set()
        for a in atts:
            if a['t1'] is None:
                continue
            for r, v in (a['truth'] or {}).items():
                if v == 'ok':
                    delivered.add(r)
                elif v == 'perm':
                    perm.add(r)
        last = None
        for a in atts:
            if a['t1'] is not None:
                last = a
        if last is not None:
            last_temp = set(r for r, v in (last['truth'] or {}).items()
                            if v == 'temp')
        stored = None
        if obs['final'] is not None and acc is not None:
            stored = obs['final'].get(acc['id'])
        in_flight = any(a['t1'] is None for a in atts)
        given_up = bool(acc is not None and last is not None and last_temp
                        and stored is None and not in_flight
                        and obs['final'] is not None)
        out[k] = {'m': m, 'acc': acc, 'attempts': atts,
                  'delivered': delivered, 'perm': perm,
                  'last_temp': last_temp, 'stored': stored,
                  'given_up': given_up, 'in_flight': in_flight, 'last': last}
    return out


def index_shift(scn, obs, a, before=None):
    """True when the indexes the persistent backend has accumulated for this
    message (raw concatenation of what set_recipients_delivered was given)
    do not denote the recipients the queue meant, because the queue computes
    them against the *reduced* list that get() returned: known finding
    'relative-index accumulation' (DESIGN.md section 10 #5).  Pure function of
    the recorded history; `before` limits it to marks recorded before that
    loop time."""
    if scn['backend'] == 'dict' or a['acc'] is None:
        return False
    id = a['acc']['id']
    orig = list(a['m']['rcpts'])
    raw = []
    meant = set()
    owned = set()
    for o in obs['store_ops']:
        if o['op'] != 'set_recipients_delivered' or o['t1'] is None or \
                not o['ok'] or hq._norm(o['id']) != id:
            continue
        if before is not None and o['t1'] > before:
            continue
        # the attempt whose outcome this call records: the earliest finished
        # one (by event sequence - with a zero backoff the next attempt may
        # finish at the same virtual instant) not yet accounted for, whose
        # settled recipients sit at exactly the indexes passed
        owner = None
        for att in a['attempts']:
            if att['end_seq'] is None or att['end_seq'] > o['s0'] or \
                    att["start_seq"] in owned:
                continue
            rel = sorted(i for i, r in enumerate(att['rcpts'])
                         if (att['truth'] or {}).get(r) in ('ok', 'perm'))
            if sorted(o["args"]) == rel:
                owner = att
                break
        if owner is None:
            # the queue did not pass the relative indexes of the recipients
            # an attempt settled: something else is wrong, not this finding
            return False
        owned.add(owner["start_seq"])
        raw += list(o['args'])
        for r, t in (owner['truth'] or {}).items():
            if t in ('ok', 'perm'):
                meant.add(r)
    lst = list(orig)
    for i in sorted(raw, reverse=True):
        if i < len(lst):
            del lst[i]
        else:
            return True
    return lst != [r for r in orig if r not in meant]


_failed_for = re.compile(br'Delivery failed for:\r\n- (.*?)\r\n\r\n', re.S)
_responded = re.compile(br'Destination host responded:\r\n(\d\d\d) (.*?)\r\n'
                        br'\r\n--', re.S)
_marker = re.compile(br'^X-Sim-Msg: (\d+)\r$', re.M)


def parse_bounce(b):
    """(k, named recipients, code, message) from a recorded bounce"""
    body = b['body']
    m = _failed_for.search(body)
    named = m.group(1).decode('ascii', 'replace').split('\r\n- ') if m else None
    m2 = _responded.search(body)
    code = m2.group(1).decode() if m2 else None
    msg = m2.group(2).decode('utf-8', 'replace') if m2 else None
    m3 = _marker.search(body)
    k = int(m3.group(1)) if m3 else None
    return k, named, code, msg


def bounced_rcpts(obs):
    """k -> set of recipients named in any bounce for message k"""
    out = {}
    for b in obs['bounces']:
        k, named, code, msg = parse_bounce(b)
        if k is None or named is None:
            continue
        out.setdefault(k, set()).update(named)
    return out


def shrink_candidates(scn, clause):
    # fewer messages
    msgs = scn['messages']
    if len(msgs) > 1:
        for i in range(len(msgs)):
            if msgs[i].get('how') == 'sub':
                continue
            kk = msgs[i]['k']
            c = dict(scn)
            c['messages'] = [x for x in msgs if x is not msgs[i] and not (
                msgs[i].get('split') and x.get('how') == 'sub' and
                x['k'] // 100 == kk + 1)]
            if any(x.get('how') != 'sub' for x in c['messages']):
                yield finish(c)
    wf = scn.get('write_fail') or []
    for i in range(len(wf)):
        c = dict(scn)
        c['write_fail'] = wf[:i] + wf[i + 1:]
        yield c
    # drop ops
    ops = scn.get('ops') or []
    for i in range(len(ops)):
        c = dict(scn)
        c['ops'] = ops[:i] + ops[i + 1:]
        yield finish(c)
    # pools to unbounded, bounce queue to self
    for key in ('store_pool', 'relay_pool'):
        if scn.get(key) is not None:
            c = dict(scn)
            c[key] = None
            yield c
    if scn.get('bounce_queue') != 'self':
        c = dict(scn)
        c['bounce_queue'] = 'self'
        yield c
    if scn.get('mq_dup_every'):
        c = dict(scn)
        c['mq_dup_every'] = 0
        yield c
    if scn.get('bounce_outcomes'):
        c = dict(scn)
        c['bounce_outcomes'] = []
        yield c
    # fewer recipients
    for i, m in enumerate(msgs):
        if m.get('split') or m.get('how') == 'sub':
            continue
        if len(m['rcpts']) > 1:
            for j in range(len(m['rcpts'])):
                c = dict(scn)
                mm = dict(m)
                mm['rcpts'] = m['rcpts'][:j] + m['rcpts'][j + 1:]
                c['messages'] = msgs[:i] + [mm] + msgs[i + 1:]
                yield c
        if m.get('body'):
            c = dict(scn)
            mm = dict(m)
            mm.pop('body')
            c['messages'] = msgs[:i] + [mm] + msgs[i + 1:]
            yield c
        if m.get('at'):
            c = dict(scn)
            mm = dict(m)
            mm['at'] = 0.0
            c['messages'] = msgs[:i] + [mm] + msgs[i + 1:]
            yield finish(c)
    # shorter backoff table / smaller waits
    tb = scn['backoff']
    if tb:
        c = dict(scn)
        c['backoff'] = tb[:-1]
        yield finish(c)
        for i, w in enumerate(tb):
            if w not in (0, 1):
                c = dict(scn)
                c['backoff'] = tb[:i] + [1] + tb[i + 1:]
                yield finish(c)
    # simpler outcomes: truncate scripts, latencies to 0, verdicts to ok
    oc = scn['outcomes']
    for k, lst in oc.items():
        if len(lst) > 1:
            c = dict(scn)
            c['outcomes'] = dict(oc)
            c['outcomes'][k] = lst[:-1]
            yield c
        for i, spec in enumerate(lst):
            if spec.get('lat'):
                c = dict(scn)
                c['outcomes'] = dict(oc)
                s2 = dict(spec)
                s2['lat'] = 0.0
                c['outcomes'][k] = lst[:i] + [s2] + lst[i + 1:]
                yield c
            if spec['t'] in ('map', 'seq'):
                for r, (vd, var) in sorted(spec['r'].items()):
                    if vd != 'ok' or var != 0:
                        c = dict(scn)
                        c['outcomes'] = dict(oc)
                        s2 = dict(spec)
                        s2['r'] = dict(spec['r'])
                        s2['r'][r] = ['ok', 0]
                        c['outcomes'][k] = lst[:i] + [s2] + lst[i + 1:]
                        yield c
    if scn['backend'] != 'dict':
        c = dict(scn)
        c['backend'] = 'dict'
        c.pop('mq_dup_every', None)
        yield c
