"""C08 - nothing crosses the STARTTLS boundary; AUTH only when permitted.

Three scenario kinds, each on the real code over SimSocket/SimTLS:
  tls-server : real SmtpEdge; client pipelines marked plaintext behind STARTTLS
               (same segment) or behind the 220, then handshakes and goes on
  auth       : real SmtpEdge with real pysasl; AUTH lines of every shape in
               every session state, with and without TLS
  tls-client : real slimta.smtp.client.Client.starttls() against a scripted
               server that appends a marked plaintext reply behind its 220
Provenance is established with markers that are never sent inside TLS."""
from __future__ import annotations

import base64
import random

import gevent

from sim.world import World
from sim import net
from sim.tls import SimTLSContext, SimTLSSocket
from harness import session as hs
from .c07 import Client as LineClient

ID = 'C08'
RULE = ('seeded sessions of three kinds (STARTTLS injection against the '
        'server, AUTH gating/argument shapes, STARTTLS injection against the '
        'client); session prefixes with and without an open transaction, '
        'marked plaintext pipelined behind the STARTTLS line or the 220 '
        'reply, immediate TLS or STARTTLS, PLAIN/LOGIN with initial response '
        'or challenges, cancel, bad base64, empty, unknown mechanism, Unicode '
        'credentials; non-trivial = a TLS handshake completed with injected '
        'plaintext present, or an AUTH exchange reached the mechanism; '
        'distinct = distinct event-log digest')
COMPONENTS = {
    'real': ['slimta.edge.smtp.SmtpEdge/SmtpSession', 'slimta.smtp.server.Server',
             'slimta.smtp.io.IO', 'slimta.smtp.auth.AuthSession',
             'slimta.smtp.client.Client', 'pysasl (PLAIN, LOGIN)'],
    'stub': ['SimLoop', 'SimSocket', 'SimTLS (typed masked records; plaintext '
             'inside the TLS stream raises SSLError as real TLS would)',
             'scripted client / scripted server', 'capturing queue'],
}
BUDGET = {'quick': 30000, 'thorough': 800000}
PROBES = ['injected-behind-starttls', 'injected-behind-220',
          'handshake-completed', 'handshake-failed-on-injection',
          'open-transaction-at-starttls', 'auth-in-clear', 'auth-over-tls',
          'auth-challenge-path', 'auth-cancel', 'auth-bad-base64',
          'auth-noarg', 'auth-unknown-mech', 'auth-in-transaction',
          'auth-after-success', 'auth-before-ehlo', 'unicode-credentials',
          'client-injection', 'tls-immediately', 'auth-validator-raised',
          'bystander-session']
STATES_MEASURE = 'distinct (kind, encrypted, identity, transaction, authed) at each AUTH/STARTTLS'
STEP_CAP = 200000


def b64(s):
    return base64.b64encode(s.encode('utf-8')).decode('ascii')


def generate(seed, tier='quick'):
    rng = random.Random(seed)
    kind = rng.choice(['tls-server', 'tls-server', 'auth', 'auth',
                       'tls-client'])
    scn = {'property': ID, 'harness': 'session', 'seed': seed, 'kind': kind,
           'sched_seed': rng.getrandbits(48),
           'bystander': rng.random() < 0.25}
    if kind == 'tls-server':
        scn['cfg'] = {'tls': True, 'auth': False, 'verdicts': {}}
        pre = ['EHLO c.example']
        tx = rng.random() < 0.5
        if tx:
            pre.append(rng.choice(['MAIL FROM:<pre@a.example>',
                                   'MAIL FROM:<pre@a.example>',
                                   'MAIL FROM:<>']))
            if rng.random() < 0.6:
                pre.append('RCPT TO:<prercpt@b.example>')
        scn['prefix'] = pre
        scn['open_tx'] = tx
        scn['inject'] = rng.choice(['same-segment', 'same-segment',
                                    'after-220', 'none'])
        scn['injected'] = rng.choice([
            ['XMARK inj1x'], ['MAIL FROM:<inj1x@evil.example>'],
            ['RSET', 'XMARK inj1x'], ['EHLO inj1x.example', 'XMARK inj2x'],
            ['XMARK inj1x', 'XMARK inj2x', 'XMARK inj3x']])
        post = []
        for _ in range(rng.randint(1, 4)):
            post.append(rng.choice([
                'MAIL FROM:<post@a.example>', 'RCPT TO:<postrcpt@b.example>',
                'DATA', 'EHLO again.example', 'NOOP', 'RSET', 'STARTTLS',
                'XMARK tlsmark']))
        scn['post'] = post
    elif kind == 'auth':
        tls = rng.choice(['none', 'none', 'starttls', 'immediate'])
        scn['cfg'] = {'tls': tls != 'none', 'tls_immediately': tls ==
                      'immediate', 'auth': True,
                      'verdicts': {'auth': [rng.choice([None, None, '535',
                                                        '454', 'raise-attr'])
                                            for _ in range(4)]}}
        scn['tls_mode'] = tls
        steps = []
        users = ['user', 'usér世', 'a b', 'x' * 40, '']
        for _ in range(rng.randint(2, 8)):
            c = rng.random()
            if c < 0.5:
                mech = rng.choice(['PLAIN', 'PLAIN', 'LOGIN'])
                u, p, z = rng.choice(users), rng.choice(
                    ['pw', 'päss wörd', '', 'p' * 30]), \
                    rng.choice(['', '', 'zid'])
                shape = rng.choice(['initial', 'challenge', 'cancel',
                                    'badb64', 'empty', 'cancel-initial'])
                spell = rng.choice(['upper', 'upper', 'lower', 'title'])
                steps.append({'op': 'auth', 'mech': mech, 'u': u, 'p': p,
                              'z': z, 'shape': shape, 'spell': spell})
            elif c < 0.58:
                steps.append({'op': 'authraw', 'line': rng.choice([
                    'AUTH', 'AUTH FOO', 'AUTH FOO bar', 'AUTH PLAIN =',
                    'AUTH  ', 'AUTH B@D x', 'AUTH plain'])})
            elif c < 0.7:
                steps.append({'op': 'cmd', 'line': 'EHLO c%d.example' %
                              rng.randint(1, 9)})
            elif c < 0.8:
                steps.append({'op': 'cmd',
                              'line': rng.choice(['MAIL FROM:<s@a.example>',
                                                  'MAIL FROM:<s@a.example>',
                                                  'MAIL FROM:<>'])})
            elif c < 0.88:
                steps.append({'op': 'cmd', 'line': rng.choice(
                    ['RSET', 'NOOP', 'RCPT TO:<r@b.example>'])})
            else:
                steps.append({'op': 'starttls'})
        scn['steps'] = steps
    else:
        scn['cfg'] = {}
        scn['inject'] = rng.choice(['same-segment', 'same-segment',
                                    'separate', 'none'])
        scn['injected_replies'] = rng.choice([
            ['250 inj1x ok'], ['250-inj1x\r\n250 inj2x PIPELINING'],
            ['550 inj1x no', '250 inj2x']])
        scn['server_segmenter'] = rng.choice(['whole', 'line', 'few'])
        scn['post'] = rng.choice([['ehlo'], ['ehlo', 'mail'],
                                  ['ehlo', 'mail', 'rcpt'], ['noop']])
    return scn


MARKS = ('inj1x', 'inj2x', 'inj3x')


def execute(scn, debug=False):
    hs.install_seams()
    world = World(scn['sched_seed'], step_cap=STEP_CAP, debug=debug)
    try:
        hs.PTR.latency = 0.0
        hs.PTR.answer = None
        result = {'violations': [], 'states': set(), 'nontrivial': False}
        fn = {'tls-server': _tls_server, 'auth': _auth,
              'tls-client': _tls_client}[scn['kind']]
        g = gevent.spawn(fn, world, scn, result)
        ok = world.wait(g, 2000.0)
        if not ok:
            result['violations'].append({
                'clause': 'C08/hung', 'detail': {'kind': scn['kind']},
                'msg': 'session did not finish: %s' % world.blocked_report()})
        elif not g.successful():
            world.harness_errors.append('driver died: %r' % (g.exception,))
        if ok and result.get('by') and not result['violations']:
            msg = hs.bystander_verdict(world, result['by'][0], result['by'][1],
                                       scn['cfg'])
            if msg:
                _bad(result, 'C08/cross-session', msg)
        return {
            'violations': result['violations'][:3], 'digest': world.digest(),
            'nontrivial': result['nontrivial'],
            'probes': dict(world.probes), 'faults': dict(world.faults),
            'states': sorted(result['states']),
            'steps': world.loop.steps, 'sim_s': world.loop.elapsed(),
            'inconclusive': world.loop.cap_hit,
            'harness_errors': list(world.harness_errors),
            'summary': {'kind': scn['kind'],
                        'script': scn.get('steps') or scn.get('post'),
                        'codes': result.get('codes')},
        }
    finally:
        world.close()


def _bad(result, clause, msg, **det):
    result['violations'].append({'clause': clause, 'detail': det, 'msg': msg})


def _marked(x):
    if isinstance(x, bytes):
        x = x.decode('utf-8', 'replace')
    if not isinstance(x, str):
        return None
    for m in MARKS:
        if m in x:
            return m
    return None


# ---------------------------------------------------------------- tls-server
def _tls_server(world, scn, result):
    a, b = net.socketpair(world, 'c08', a_opts={'latency': net.LAT_SMALL},
                          b_opts={'latency': net.LAT_SMALL})
    trace = hs.Trace(world, 's')
    srv = hs.start_server(world, trace, scn['cfg'], b, a.getpeername())
    if scn.get('bystander') and not scn['cfg'].get('tls_immediately'):
        result['by'] = (trace, hs.start_bystander(world, trace))
        world.probe('bystander-session')
    cl = LineClient(world, a)
    codes = result.setdefault('codes', [])
    r = cl.read_reply()
    codes.append(r and r[0])
    for line in scn['prefix']:
        a.sendall(line.encode() + b'\r\n')
        r = cl.read_reply()
        codes.append(r and r[0])
    if scn['open_tx']:
        world.probe('open-transaction-at-starttls')
    inj = b''.join(l.encode() + b'\r\n' for l in scn['injected'])
    if scn['inject'] == 'same-segment':
        world.probe('injected-behind-starttls')
        a.sendall(b'STARTTLS\r\n' + inj)
    else:
        a.sendall(b'STARTTLS\r\n')
    r = cl.read_reply()
    codes.append(r and r[0])
    if not r or r == 'timeout' or r[0] != '220':
        _bad(result, 'C08/harness', 'STARTTLS refused: %r' % (r,))
        return
    if scn['inject'] == 'after-220':
        world.probe('injected-behind-220')
        a.sendall(inj)
        gevent.sleep(0.05)
    mark = len(trace.calls)
    # anything the server says in clear before the handshake (e.g. replies
    # to the injected commands) is observable here
    try:
        tls = SimTLSContext().wrap_socket(a)
    except Exception as e:
        world.probe('handshake-failed-on-injection')
        # legitimate outcome: injected plaintext fed to the handshake
        world.wait(srv, 100.0)
        _check_calls(result, trace, mark, 'server')
        return
    world.probe('handshake-completed')
    if scn['inject'] != 'none':
        result['nontrivial'] = True
    cl2 = LineClient(world, tls)
    ehlo_seen = False
    for line in scn['post']:
        m0 = len(trace.calls)
        try:
            tls.sendall(line.encode() + b'\r\n')
        except OSError:
            break
        r = cl2.read_reply()
        codes.append(r and r != 'timeout' and r[0])
        if not r or r == 'timeout':
            break
        text = b' '.join(r[1])
        mk = _marked(text)
        if mk:
            _bad(result, 'C08/plaintext-crossed-tls/server',
                 'a reply read over TLS answers injected plaintext (%s): '
                 '%s %r' % (mk, r[0], text), via='reply',
                 inject=scn['inject'])
            return
        names = [c[0] for c in trace.calls[m0:] if c[0] != '=']
        if line.startswith('EHLO') and r[0] == '250':
            ehlo_seen = True
            if any(l.strip().upper().startswith(b'STARTTLS') for l in r[1]):
                _bad(result, 'C08/starttls-still-offered',
                     'STARTTLS is still advertised after the handshake')
                return
        if not ehlo_seen:
            bad_cb = [n for n in names if n in ('MAIL', 'RCPT', 'DATA',
                                                'HAVE_DATA', 'ENQ')]
            if bad_cb:
                _bad(result, 'C08/state-survived-tls',
                     'after the handshake and before a new EHLO the server '
                     'accepted %r (callbacks %r, reply %s): EHLO identity or '
                     'the open transaction survived STARTTLS' % (
                         line, bad_cb, r[0]), cmd=line.split()[0],
                     open_tx=scn['open_tx'])
                return
        if line == 'DATA' and r[0] == '354':
            tls.sendall(b'x\r\n.\r\n')
            r = cl2.read_reply()
        if line == 'STARTTLS' and r[0] == '220':
            _bad(result, 'C08/starttls-still-offered',
                 'a second STARTTLS was accepted on an encrypted session')
            return
    _check_calls(result, trace, mark, 'server')
    try:
        tls.close()
    except Exception:
        pass
    world.wait(srv, 100.0)


def _check_calls(result, trace, mark, side):
    """no callback after the STARTTLS point may carry an injected marker"""
    for c in trace.calls[mark:]:
        if c[0] in ('=', 'authattr'):
            continue
        for arg in c[1:]:
            mk = _marked(arg)
            if mk:
                _bad(result, 'C08/plaintext-crossed-tls/' + side,
                     'callback %s received injected plaintext (%s): %r'
                     % (c[0], mk, c[:3]), via='callback:' + c[0])
                return


# ---------------------------------------------------------------------- auth
def _auth(world, scn, result):
    a, b = net.socketpair(world, 'c08a', a_opts={'latency': net.LAT_SMALL},
                          b_opts={'latency': net.LAT_SMALL})
    trace = hs.Trace(world, 's')
    srv = hs.start_server(world, trace, scn['cfg'], b, a.getpeername())
    if scn.get('bystander') and not scn['cfg'].get('tls_immediately'):
        result['by'] = (trace, hs.start_bystander(world, trace))
        world.probe('bystander-session')
    sock = a
    enc = False
    if scn['tls_mode'] == 'immediate':
        world.probe('tls-immediately')
        sock = SimTLSContext().wrap_socket(a)
        enc = True
    cl = LineClient(world, sock)
    codes = result.setdefault('codes', [])
    r = cl.read_reply()
    codes.append(r and r[0])
    st = {'I': False, 'M': False, 'authed': False}
    verd = list(scn['cfg']['verdicts'].get('auth') or [])
    nverd = [0]

    def send(line):
        sock.sendall(line + b'\r\n')
        r = cl.read_reply()
        codes.append(r and r != 'timeout' and r[0])
        return r

    def closed(r, what):
        if r is None or r == 'timeout':
            _bad(result, 'C08/auth-malformed-kills-session',
                 'the session ended (%s) instead of answering %s with an '
                 'error reply; escaped exceptions %r' % (
                     'connection closed' if r is None else 'no reply', what,
                     sorted(set((e[0], e[2]) for e in world.exceptions))[:2]),
                 what=what.split(' ')[0])
            return True
        return False

    for stp in scn['steps']:
        if result['violations']:
            break
        op = stp['op']
        if op == 'cmd':
            r = send(stp['line'].encode())
            if r is None or r == 'timeout':
                break
            if stp['line'].startswith('EHLO') and r[0] == '250':
                st.update(I=True, M=False)
            elif stp['line'].startswith('MAIL') and r[0] == '250':
                st['M'] = True
            elif stp['line'] == 'RSET' and r[0] == '250':
                st['M'] = False
            if r[0] in ('221', '421'):
                break
            continue
        if op == 'starttls':
            if enc or not scn['cfg']['tls'] or not st['I'] or st['M']:
                continue
            r = send(b'STARTTLS')
            if not r or r == 'timeout' or r[0] != '220':
                break
            sock = SimTLSContext().wrap_socket(sock)
            cl = LineClient(world, sock)
            enc = True
            st.update(I=False, M=False)
            continue
        mark = len(trace.calls)
        ncreds = len(trace.creds)
        result['states'].add(hash(('auth', enc, st['I'], st['M'],
                                   st['authed'], stp.get('shape'))))
        permitted = st['I'] and not st['authed'] and not st['M']
        if not st['I']:
            world.probe('auth-before-ehlo')
        if st['authed']:
            world.probe('auth-after-success')
        if st['M']:
            world.probe('auth-in-transaction')
        world.probe('auth-over-tls' if enc else 'auth-in-clear')
        if op == 'authraw':
            world.probe('auth-noarg' if stp['line'].strip() == 'AUTH'
                        else 'auth-unknown-mech')
            r = send(stp['line'].encode())
            if closed(r, repr(stp['line'])):
                break
            if r[0] == '334':
                # a (case-insensitively) valid mechanism name: cancel
                r = send(b'*')
                if closed(r, 'AUTH cancel'):
                    break
            final = r
            sent = None
        else:
            u, p, z, mech, shape = (stp['u'], stp['p'], stp['z'], stp['mech'],
                                    stp['shape'])
            if any(ord(ch) > 127 for ch in u + p):
                world.probe('unicode-credentials')
            sent = (u, p, z)
            if mech == 'PLAIN':
                resp = b64('%s\0%s\0%s' % (z, u, p))
                seq = [resp]
            else:
                seq = [b64(u), b64(p)]
            # mechanism names are case-insensitive on the wire
            wmech = {'lower': mech.lower(), 'title': mech.title()}.get(
                stp.get('spell'), mech)
            if shape == 'initial':
                first = 'AUTH %s %s' % (wmech, seq[0])
                rest = seq[1:]
            elif shape == 'cancel-initial':
                world.probe('auth-cancel')
                first = 'AUTH %s *' % wmech
                rest = []
                sent = None
            else:
                world.probe('auth-challenge-path')
                first = 'AUTH %s' % wmech
                rest = list(seq)
                if shape == 'cancel':
                    world.probe('auth-cancel')
                    rest = ['*']
                    sent = None
                elif shape == 'badb64':
                    world.probe('auth-bad-base64')
                    rest = ['!!!notbase64!!!']
                    sent = None
                elif shape == 'empty':
                    rest = ['']
                    sent = None
            r = send(first.encode())
            if closed(r, 'AUTH %s (%s)' % (mech, shape)):
                break
            while r[0] == '334' and rest:
                r = send(rest.pop(0).encode())
                if closed(r, 'AUTH %s continuation (%s)' % (mech, shape)):
                    break
            if r is None or r == 'timeout':
                break
            if r[0] == '334':
                # server wants more than we have: cancel
                r = send(b'*')
                if closed(r, 'AUTH cancel'):
                    break
            final = r
        if final[0] in ('421', '221') and \
                any(c[0] == 'v_auth' for c in trace.calls[mark:]) and \
                (verd[nverd[0]] if nverd[0] < len(verd) else None) == \
                'raise-attr':
            # the application's own validator raised: ending the session
            # with 421 is the server's answer to that; it must not have
            # marked the session authenticated
            world.probe('auth-validator-raised')
            if any(c[0] == 'authattr' and c[1] for c in trace.calls[mark:]):
                _bad(result, 'C08/authed-without-accept', 'the application\'s '
                     'AUTH validator raised, yet the session was marked '
                     'authenticated')
            break
        if final[0] in ('421', '221'):
            _bad(result, 'C08/auth-malformed-kills-session',
                 'the server answered %r with %s and ended the session; '
                 'escaped exceptions %r' % (
                     stp.get('line') or 'AUTH %s (%s)' % (stp.get('mech'),
                                                          stp.get('shape')),
                     final[0], sorted(set((e[0], e[2])
                                          for e in world.exceptions))[:2]),
                 what=(stp.get('line') or stp.get('shape') or '').strip())
            break
        new = [c for c in trace.calls[mark:] if c[0] == 'v_auth']
        attr = [c for c in trace.calls[mark:] if c[0] == 'authattr']
        if new:
            result['nontrivial'] = True
            if not permitted:
                _bad(result, 'C08/auth-gating',
                     'the AUTH handler was invoked although AUTH is not '
                     'permitted now (EHLO given=%s, already authenticated=%s, '
                     'in transaction=%s)' % (st['I'], st['authed'], st['M']),
                     state='%d%d%d' % (st['I'], st['authed'], st['M']))
                break
            if not enc:
                _bad(result, 'C08/plain-auth-in-clear',
                     'plain-text mechanism %s reached the application on an '
                     'unencrypted session (reply %s)' % (
                         stp.get('mech'), final[0]), mech=stp.get('mech'))
                break
            creds = trace.creds[ncreds]
            if sent is not None:
                u, p, z = sent
                got = (creds.authcid, getattr(creds, 'authzid', None))
                want_z = z if mech == 'PLAIN' else u
                ok_secret = True
                try:
                    from pysasl.identity import ClearIdentity
                    ok_secret = creds.verify(ClearIdentity(u, p))
                except Exception:
                    ok_secret = True
                if creds.authcid != u or (want_z and creds.authzid != want_z) \
                        or not ok_secret:
                    _bad(result, 'C08/credentials-altered',
                         'client sent authcid=%r authzid=%r; the application '
                         'saw authcid=%r authzid=%r (secret verifies: %s)' % (
                             u, want_z, creds.authcid, creds.authzid,
                             ok_secret), mech=mech)
                    break
            v = verd[nverd[0]] if nverd[0] < len(verd) else None
            nverd[0] += 1
            want = v or '235'
            if v == 'raise-attr':
                world.probe('auth-validator-raised')
                if final[0] == '235' or st['authed']:
                    _bad(result, 'C08/authed-without-accept',
                         'the application\'s AUTH validator raised an '
                         'exception, yet the reply was %s' % final[0])
                break
            if final[0] != want:
                _bad(result, 'C08/auth-verdict', 'application verdict %s, '
                     'reply %s' % (want, final[0]))
                break
            if final[0] == '235':
                st['authed'] = True
        else:
            if final[0] == '235':
                _bad(result, 'C08/authed-without-accept',
                     'reply 235 without the application having been asked')
                break
            if final[0][0] not in '45':
                _bad(result, 'C08/auth-no-error-reply', 'AUTH that did not '
                     'reach the application got reply %s' % final[0])
                break
        authset = attr[-1][1] if attr else None
        sess_auth = trace.edge and None
        if attr and final[0] != '235' and attr[-1][1]:
            _bad(result, 'C08/authed-without-accept', 'session.auth=%r after '
                 'reply %s' % (attr[-1][1], final[0]))
            break
        if final[0] in ('221', '421'):
            break
    try:
        sock.close()
    except Exception:
        pass
    world.wait(srv, 100.0)


# ---------------------------------------------------------------- tls-client
def _tls_client(world, scn, result):
    from slimta.smtp.client import Client
    import slimta.smtp.client as smc
    smc.wait_read = net.sim_wait_read
    world.probe('client-injection')
    a, b = net.socketpair(world, 'c08c',
                          a_opts={'latency': net.LAT_SMALL},
                          b_opts={'latency': net.LAT_SMALL,
                                  'segmenter': scn['server_segmenter']})
    inj = b''.join(x.encode() + b'\r\n' for x in scn['injected_replies'])
    srv_log = []

    def server():
        lc = _SrvReader(b)
        b.sendall(b'220 scripted ESMTP\r\n')
        line = lc.line()
        if line is None:
            return
        b.sendall(b'250-scripted\r\n250-PIPELINING\r\n250 STARTTLS\r\n')
        line = lc.line()            # STARTTLS
        if line is None:
            return
        if scn['inject'] == 'same-segment':
            b.sendall(b'220 go ahead\r\n' + inj)
        elif scn['inject'] == 'separate':
            b.sendall(b'220 go ahead\r\n')
            b.sendall(inj)
        else:
            b.sendall(b'220 go ahead\r\n')
        try:
            tls = SimTLSContext().wrap_socket(b, server_side=True)
        except Exception as e:
            srv_log.append('handshake-failed')
            b.close()
            return
        lc2 = _SrvReader(tls)
        while True:
            line = lc2.line()
            if line is None:
                break
            srv_log.append(line)
            verb = line.split(b' ')[0].upper()
            if verb == b'EHLO':
                tls.sendall(b'250-real over tls\r\n250 PIPELINING\r\n')
            elif verb == b'QUIT':
                tls.sendall(b'221 bye\r\n')
                break
            else:
                tls.sendall(b'250 real ok\r\n')
        tls.close()
    sg = gevent.spawn(server)
    c = Client(a, ('10.0.0.1', 25))
    replies = []
    try:
        replies.append(('banner', c.get_banner()))
        replies.append(('ehlo', c.ehlo('client.example')))
        r = c.starttls(SimTLSContext())
        replies.append(('starttls', r))
        enc = c.io.encrypted
        if enc:
            world.probe('handshake-completed')
            if scn['inject'] != 'none':
                result['nontrivial'] = True
        else:
            world.probe('handshake-failed-on-injection')
        post = []
        if enc:
            for what in scn['post']:
                if what == 'ehlo':
                    post.append(('ehlo', c.ehlo('client.example')))
                elif what == 'mail':
                    post.append(('mail', c.mailfrom('s@a.example')))
                elif what == 'rcpt':
                    post.append(('rcpt', c.rcptto('r@b.example')))
                else:
                    post.append(('noop', c.custom_command(b'NOOP')))
            post.append(('quit', c.quit()))
        for name, rp in post:
            txt = '%s %s' % (rp.code, rp.message)
            mk = _marked(txt)
            if mk:
                _bad(result, 'C08/plaintext-crossed-tls/client',
                     'the reply object returned for %s after starttls() holds '
                     'text the server sent in clear before the handshake '
                     '(%s): %r' % (name.upper(), mk, txt), via=name,
                     inject=scn['inject'])
                break
            if 'real' not in txt and name != 'quit':
                _bad(result, 'C08/plaintext-crossed-tls/client',
                     'the reply returned for %s is not the one sent over '
                     'TLS: %r' % (name.upper(), txt), via=name,
                     inject=scn['inject'])
                break
        if enc and 'inj' in repr(c.extensions.extensions if hasattr(
                c.extensions, 'extensions') else ''):
            _bad(result, 'C08/plaintext-crossed-tls/client',
                 'extensions parsed from plaintext', via='extensions')
    except Exception as e:
        # ConnectionLost / BadReply / SSL errors are legitimate outcomes of
        # injected plaintext; anything else is reported by other properties
        result.setdefault('client_exc', repr(e))
    try:
        c.io.close()
    except Exception:
        pass
    world.wait(sg, 100.0)


class _SrvReader(object):
    def __init__(self, sock):
        self.sock = sock
        self.buf = b''

    def line(self):
        while b'\n' not in self.buf:
            try:
                d = self.sock.recv(4096)
            except Exception:
                return None
            if not d:
                return None
            self.buf += d
        l, self.buf = self.buf.split(b'\n', 1)
        return l.rstrip(b'\r')


def shrink_candidates(scn, clause):
    for key in ('post', 'steps', 'prefix', 'injected', 'injected_replies'):
        lst = scn.get(key)
        if isinstance(lst, list) and len(lst) > 1:
            for i in range(len(lst)):
                c = dict(scn)
                c[key] = lst[:i] + lst[i + 1:]
                if key == 'prefix' and not c[key][0].startswith('EHLO'):
                    continue
                if key == 'prefix':
                    c['open_tx'] = any(x.startswith('MAIL') for x in c[key])
                yield c
