"""C18 - PROXY protocol headers are parsed exactly and never over-read.

Headers come from an encoder written from the HAProxy specification, then
truncation / single-byte corruption / garbage; they are delivered over a
SimSocket with seeded segmentation and short recv_into results, followed by a
payload.  The real ProxyProtocol / ProxyProtocolV1 / ProxyProtocolV2 mix-ins
run over a stub edge that records the address and what is still unread.  An
independent reference parser classifies each byte string."""
from __future__ import annotations

import ipaddress
import random
import struct

import gevent

from sim.world import World
from sim import net

ID = 'C18'
RULE = ('seeded PROXY v1 (TCP4/TCP6/UNKNOWN) and v2 (INET/INET6/UNIX/UNSPEC, '
        'PROXY/LOCAL, TLV tails) headers with boundary addresses and ports, '
        'their truncations, single-byte corruptions and random garbage, '
        'delivered under seeded segmenters and recv_into caps (1-3 bytes) and '
        'followed by a payload, through each of the three mix-ins; in 30% of '
        'the scenarios 1-2 further connections with their own headers are '
        'served by the same edge at the same time, each judged alone; '
        'non-trivial = header is corrupted/truncated, or delivery was cut '
        'inside the header; distinct = distinct event-log digest')
COMPONENTS = {
    'real': ['slimta.util.proxyproto.ProxyProtocol/ProxyProtocolV1/'
             'ProxyProtocolV2', 'slimta.edge.EdgeServer (base)'],
    'stub': ['SimLoop', 'SimSocket (recv_into short reads)', 'stub edge '
             'recording address and unread bytes', 'reference header '
             'encoder/classifier written from the HAProxy spec'],
}
BUDGET = {'quick': 60000, 'thorough': 1000000}
PROBES = ['v1-tcp4', 'v1-tcp6', 'v1-unknown', 'v2-inet', 'v2-inet6', 'v2-unix',
          'v2-unspec', 'v2-local', 'v2-tlv', 'truncated', 'corrupted',
          'garbage', 'short-reads', 'mixin-auto', 'mixin-v1', 'mixin-v2',
          'boundary-port', 'corrupted-still-valid',
          'concurrent-connections']
STATES_MEASURE = ('distinct (mixin, header kind, mutation, reference verdict, '
                  'concurrent) tuples')
STEP_CAP = 100000
SIG2 = b'\r\n\r\n\x00\r\nQUIT\n'


# ----------------------------------------------------------- spec encoder
def enc_v1(rng):
    fam = rng.choice(['TCP4', 'TCP4', 'TCP6', 'UNKNOWN'])
    if fam == 'UNKNOWN':
        tail = rng.choice([b'', b' ffff:f...f 1.2.3.4 65535 65535',
                           b' anything at all'])
        return b'PROXY UNKNOWN' + tail + b'\r\n', 'v1-unknown'

    def ip4():
        return rng.choice(['0.0.0.0', '255.255.255.255', '127.0.0.1',
                           '%d.%d.%d.%d' % tuple(rng.randrange(256)
                                                 for _ in range(4))])

    def ip6():
        return rng.choice(['::', '::1', 'ffff:ffff:ffff:ffff:ffff:ffff:ffff:ffff',
                           '::ffff:192.0.2.%d' % rng.randrange(256),
                           '::10.1.2.%d' % rng.randrange(256),
                           '2001:db8::%x' % rng.randrange(65536),
                           ':'.join('%x' % rng.randrange(65536)
                                    for _ in range(8))])

    def port():
        return rng.choice([0, 1, 25, 65535, rng.randrange(65536)])
    if fam == 'TCP4':
        s, d = ip4(), ip4()
    else:
        s, d = ip6(), ip6()
    sp, dp = port(), port()
    line = 'PROXY %s %s %s %d %d\r\n' % (fam, s, d, sp, dp)
    return line.encode('ascii'), 'v1-' + fam.lower()


def enc_v2(rng):
    cmd = rng.choice([0x21, 0x21, 0x21, 0x20])
    kind = rng.choice(['inet', 'inet', 'inet6', 'unix', 'unspec'])
    if kind == 'inet':
        fp = rng.choice([0x11, 0x12])
        addr = bytes(rng.randrange(256) for _ in range(8)) + \
            struct.pack('!HH', rng.choice([0, 65535, rng.randrange(65536)]),
                        rng.randrange(65536))
    elif kind == 'inet6':
        fp = rng.choice([0x21, 0x22])
        addr = bytes(rng.randrange(256) for _ in range(32)) + \
            struct.pack('!HH', rng.randrange(65536), rng.randrange(65536))
    elif kind == 'unix':
        fp = rng.choice([0x31, 0x32])
        p1 = rng.choice([b'/var/run/src%d.sock' % rng.randrange(100),
                         b'\0abstract%d' % rng.randrange(100),
                         b'/run/a\0b%d' % rng.randrange(100),
                         b'x' * 108])
        p2 = rng.choice([b'/var/run/dst.sock', b'\0dst-abstract'])
        addr = p1.ljust(108, b'\0') + p2.ljust(108, b'\0')
    else:
        fp = 0x00
        addr = bytes(rng.randrange(256) for _ in range(rng.choice([0, 0, 12])))
    tlv = b''
    if rng.random() < 0.3:
        tlv = bytes(rng.randrange(256) for _ in range(rng.randint(1, 20)))
    body = addr + tlv
    hdr = SIG2 + bytes([cmd, fp]) + struct.pack('!H', len(body)) + body
    name = 'v2-local' if cmd == 0x20 else 'v2-' + kind
    return hdr, name


# --------------------------------------------------------- reference parser
def _ip4_strict(b):
    try:
        s = b.decode('ascii')
    except UnicodeDecodeError:
        return 'invalid'
    parts = s.split('.')
    if len(parts) != 4:
        return 'invalid'
    for p in parts:
        if not p.isdigit() or not p.isascii() or len(p) > 3:
            return 'invalid'
        if len(p) > 1 and p[0] == '0':
            return 'ambiguous'
        if int(p) > 255:
            return 'invalid'
    return ipaddress.IPv4Address(s)


def _ip6_strict(b):
    try:
        s = b.decode('ascii')
    except UnicodeDecodeError:
        return 'invalid'
    if '%' in s:
        return 'invalid'        # no zone identifiers in a PROXY header
    if '.' in s:
        # an embedded dotted quad (IPv4-mapped / -compatible form)
        r = _ip4_strict(s.rsplit(':', 1)[-1].encode('ascii'))
        if r in ('invalid', 'ambiguous'):
            return r
    try:
        return ipaddress.IPv6Address(s)
    except ValueError:
        return 'invalid'


def _port_strict(b):
    if not b or not b.isdigit() or not b.isascii():
        return 'invalid'
    if len(b) > 1 and b[0:1] == b'0':
        return 'ambiguous'
    if len(b) > 5 or int(b) > 65535:
        return 'invalid'
    return int(b)


def ref_v1(data):
    """-> ('valid', (ip, port) | None, consumed) | ('invalid', max) | 'ambiguous'"""
    head = data[:107]
    idx = head.find(b'\r\n')
    if not data.startswith(b'PROXY ') or idx < 0:
        return ('invalid', 107)
    line = data[:idx]
    n = idx + 2
    body = line[6:]
    parts = body.split(b' ')
    if parts[0] == b'UNKNOWN':
        return ('valid', None, n)
    if parts[0] not in (b'TCP4', b'TCP6') or len(parts) != 5:
        return ('invalid', 107)
    f = _ip4_strict if parts[0] == b'TCP4' else _ip6_strict
    s, d = f(parts[1]), f(parts[2])
    sp, dp = _port_strict(parts[3]), _port_strict(parts[4])
    if 'invalid' in (s, d, sp, dp):
        return ('invalid', 107)
    if 'ambiguous' in (s, d, sp, dp):
        return 'ambiguous'
    return ('valid', (s, sp), n)


def ref_v2(data):
    if len(data) < 16 or data[:12] != SIG2:
        return ('invalid', 16)
    vc, fp = data[12], data[13]
    ln = struct.unpack('!H', data[14:16])[0]
    if vc >> 4 != 2:
        return ('invalid', 16 + ln)
    cmd = vc & 0x0f
    fam, proto = fp >> 4, fp & 0x0f
    if cmd == 0 and (fam > 3 or proto > 2 or len(data) < 16 + ln or
                     ln < {0: 0, 1: 12, 2: 36, 3: 216}.get(fam, 0)):
        # a LOCAL command whose other fields are malformed: dropping the
        # connection (LOCAL) and the invalid address are both acceptable
        return 'ambiguous'
    if cmd not in (0, 1) or fam > 3 or proto > 2:
        return ('invalid', 16 + ln)
    if len(data) < 16 + ln:
        return ('invalid', 16 + ln)
    need = {0: 0, 1: 12, 2: 36, 3: 216}[fam]
    if ln < need:
        return ('invalid', 16 + ln)
    if cmd == 0:
        return ('local', 16 + ln)
    a = data[16:16 + ln]
    if fam == 0:
        return ('valid', None, 16 + ln)
    if fam == 1:
        return ('valid', (ipaddress.IPv4Address(a[0:4]),
                          struct.unpack('!H', a[8:10])[0]), 16 + ln)
    if fam == 2:
        return ('valid', (ipaddress.IPv6Address(a[0:16]),
                          struct.unpack('!H', a[32:34])[0]), 16 + ln)
    return ('valid', a[0:108].rstrip(b'\0'), 16 + ln)


def ref(mixin, data):
    if mixin == 'v1':
        return ref_v1(data)
    if mixin == 'v2':
        return ref_v2(data)
    if len(data) < 8:
        return ('invalid', 8)
    if data[:6] == b'PROXY ':
        return ref_v1(data)
    if data[:8] == SIG2[:8]:
        return ref_v2(data)
    return ('invalid', 8)


# ---------------------------------------------------------------- generator
def gen_conn(rng, mixin):
    ver = rng.choice(['v1', 'v2']) if mixin == 'auto' else mixin
    if rng.random() < 0.07:
        ver = 'v2' if ver == 'v1' else 'v1'       # wrong version for mixin
    hdr, kind = (enc_v1 if ver == 'v1' else enc_v2)(rng)
    mut = rng.choice(['none', 'none', 'none', 'trunc', 'corrupt', 'corrupt',
                      'garbage', 'targeted'])
    payload = rng.choice([b'EHLO x\r\n', b'', b'\r\n', b'PROXY TCP4 1.1.1.1 '
                          b'2.2.2.2 1 2\r\n', b'\x00' * 40,
                          bytes(rng.randrange(256) for _ in range(30))])
    eof_after = True
    if mut == 'trunc':
        hdr = hdr[:rng.randrange(len(hdr))]
        payload = b''
    elif mut == 'corrupt':
        i = rng.randrange(len(hdr))
        nb = rng.choice([0, 32, 255, hdr[i] ^ (1 << rng.randrange(8)),
                         ord('0'), ord('1'), ord('_'), ord('+'), 13, 10])
        hdr = hdr[:i] + bytes([nb]) + hdr[i + 1:]
    elif mut == 'garbage':
        hdr = bytes(rng.randrange(256) for _ in range(rng.randint(0, 150)))
        if rng.random() < 0.3:
            hdr = b'PROXY ' + hdr
    elif mut == 'targeted' and ver == 'v1':
        hdr = rng.choice([
            b'PROXY TCP4 1.2.3.4\x00 5.6.7.8 1 2\r\n',
            b'PROXY TCP4 1.2.3.4 5.6.7.8 1_0 2\r\n',
            b'PROXY TCP4 1.2.3.4 5.6.7.8 +1 2\r\n',
            b'PROXY TCP4 1.2.3.4 5.6.7.8 65536 2\r\n',
            b'PROXY TCP4 1.2.3.4 5.6.7.8 -1 2\r\n',
            b'PROXY TCP4 1.2.3.4 5.6.7.8 1 2 \r\n',
            b'PROXY TCP4 1.2.3.4 5.6.7.8 1\r\n',
            b'PROXY TCP5 1.2.3.4 5.6.7.8 1 2\r\n',
            b'PROXY TCP6 1.2.3.4 5.6.7.8 1 2\r\n',
            b'PROXY TCP4 ::1 ::1 1 2\r\n',
            b'PROXY TCP6 fe80::1%eth0 ::1 1 2\r\n',
            b'PROXY TCP6 2001:db8::%2 ::1 1 2\r\n',
            b'PROXY TCP6 ::1 fe80::1%1 1 2\r\n',
            b'PROXY TCP6 ::ffff:1.2.3 ::1 1 2\r\n',
            b'PROXY TCP6 ::ffff:1.2.3.256 ::1 1 2\r\n',
            b'PROXY  TCP4 1.2.3.4 5.6.7.8 1 2\r\n',
            b'proxy TCP4 1.2.3.4 5.6.7.8 1 2\r\n',
            b'PROXY TCP4 1.2.3.4 5.6.7.8 1 2\n',
            b'PROXY TCP4 1.2.3.4 5.6.7.8 \xd9\xa1 2\r\n',
            b'PROXY TCP4 ' + b'1' * 120 + b'\r\n',
            b'PROXY TCP4 1.2.3.4 5.6.7.8 1 2\r\r\n'])
    elif mut == 'targeted':
        h = bytearray(hdr)
        t = rng.choice(['cmd', 'ver', 'fam', 'proto', 'len-short', 'len-long'])
        if t == 'cmd':
            h[12] = 0x20 | rng.choice([2, 7, 15])
        elif t == 'ver':
            h[12] = (rng.choice([0, 1, 3, 15]) << 4) | 1
        elif t == 'fam':
            h[13] = (rng.choice([4, 9, 15]) << 4) | 1
        elif t == 'proto':
            h[13] = (h[13] & 0xf0) | rng.choice([3, 8, 15])
        elif t == 'len-short':
            h[14:16] = struct.pack('!H', rng.choice([0, 1, 7, 11]))
        else:
            h[14:16] = struct.pack('!H', len(hdr) - 16 + rng.choice([1, 50]))
        hdr = bytes(h)
    return {'kind': kind,
            'mut': mut, 'header': hdr.hex(), 'payload': payload.hex(),
            'segmenter': rng.choice(['whole', 'byte', 'few', 'cuts', 'chunk']),
            'seg_param': rng.choice([None, 0.3, 3]),
            'read_cap': rng.choice([None, None, 1, 2, 3]),
            'lat': rng.choice([0, 1])}


def generate(seed, tier='quick'):
    rng = random.Random(seed)
    mixin = rng.choice(['auto', 'auto', 'v1', 'v2'])
    scn = {'property': ID, 'harness': 'wire', 'seed': seed, 'mixin': mixin}
    scn.update(gen_conn(rng, mixin))
    scn['sched_seed'] = rng.getrandbits(48)
    if rng.random() < 0.3:
        # other connections served by the same edge at the same time: each
        # is judged on its own (a parser must keep no state across them)
        scn['peers'] = []
        for _ in range(rng.choice([1, 1, 2])):
            c = gen_conn(rng, mixin)
            c['lat'] = 1
            if c['segmenter'] == 'whole':
                c['segmenter'] = rng.choice(['byte', 'few', 'cuts', 'chunk'])
            scn['peers'].append(c)
        scn['lat'] = 1
        if scn['segmenter'] == 'whole':
            scn['segmenter'] = rng.choice(['byte', 'few', 'cuts', 'chunk'])
    return scn


def execute(scn, debug=False):
    from slimta.edge import EdgeServer
    from slimta.util.proxyproto import ProxyProtocol, ProxyProtocolV1, \
        ProxyProtocolV2
    world = World(scn['sched_seed'], step_cap=STEP_CAP, debug=debug)
    try:
        class Stub(EdgeServer):
            def handle(self, sock, addr):
                sock.c18_rec['addr'] = addr
                sock.c18_rec['consumed'] = sock.rx.consumed

        mix = {'auto': ProxyProtocol, 'v1': ProxyProtocolV1,
               'v2': ProxyProtocolV2}[scn['mixin']]
        E = type('E', (mix, Stub), {})
        edge = E(None, None, hostname='e.sim')
        conns = [scn] + list(scn.get('peers') or [])
        running = []
        for ci, c in enumerate(conns):
            mode = c['segmenter']
            param = c['seg_param']
            if mode == 'cuts' and not isinstance(param, float):
                param = 0.3
            if mode == 'chunk' and not isinstance(param, int):
                param = 3
            a, b = net.socketpair(
                world, 'pp%d' % ci if ci else 'pp',
                a_opts={'segmenter': mode, 'seg_param': param,
                        'latency': net.LAT_SMALL if c['lat']
                        else net.LAT_ZERO},
                b_opts={'read_cap': c['read_cap']})
            rec, out = {}, {}
            b.c18_rec = rec
            a.sendall(bytes.fromhex(c['header']) + bytes.fromhex(c['payload']))
            a.shutdown(2)

            def run(b=b, out=out, ci=ci):
                try:
                    edge.handle(b, ('10.9.9.9', 4444 + ci))
                    out['ok'] = True
                except BaseException as e:
                    import traceback
                    tb = traceback.extract_tb(e.__traceback__)
                    out['exc'] = (type(e).__name__, str(e)[:80],
                                  tb[-1].name if tb else '?')
            running.append((c, rec, out, gevent.spawn(run)))
        violations = []
        verdicts = []
        if len(conns) > 1:
            world.probe('concurrent-connections')
        for ci, (c, rec, out, g) in enumerate(running):
            ok = world.wait(g, 120.0)
            verdicts.append(_judge(world, scn, c, rec, out, ok, violations,
                                   concurrent=len(conns) > 1))
        hdr = bytes.fromhex(scn['header'])
        cutinside = scn['segmenter'] != 'whole' or scn['read_cap']
        return {
            'violations': violations[:2], 'digest': world.digest(),
            'nontrivial': bool(scn['mut'] != 'none' or cutinside),
            'probes': dict(world.probes), 'faults': dict(world.faults),
            'states': [hash((scn['mixin'], c['kind'], c['mut'], v,
                             len(conns) > 1))
                       for c, v in zip(conns, verdicts)],
            'steps': world.loop.steps, 'sim_s': world.loop.elapsed(),
            'inconclusive': world.loop.cap_hit,
            'harness_errors': list(world.harness_errors),
            'summary': {'mixin': scn['mixin'], 'kind': scn['kind'],
                        'mut': scn['mut'], 'header': repr(hdr[:80]),
                        'connections': len(conns),
                        'reference': [repr(ref(scn['mixin'], bytes.fromhex(
                            c['header']) + bytes.fromhex(c['payload'])))[:120]
                            for c in conns],
                        'got': [repr(r[1]) for r in running]},
        }
    finally:
        world.close()


def _judge(world, scn, c, rec, out, ok, violations, concurrent=False):
    """one connection against the reference parser"""
    hdr = bytes.fromhex(c['header'])
    data = hdr + bytes.fromhex(c['payload'])
    r = ref(scn['mixin'], data)
    world.probe('mixin-' + scn['mixin'])
    world.probe(c['kind'])
    if c['mut'] == 'trunc':
        world.probe('truncated')
    if c['mut'] in ('corrupt', 'targeted'):
        world.probe('corrupted')
        if r != 'ambiguous' and r[0] == 'valid':
            world.probe('corrupted-still-valid')
    if c['mut'] == 'garbage':
        world.probe('garbage')
    if c['read_cap']:
        world.probe('short-reads')
    if b' 65535 ' in hdr or b' 0 ' in hdr or hdr.endswith(b' 65535\r\n'):
        world.probe('boundary-port')
    if len(hdr) > 16 and hdr[:12] == SIG2 and c['mut'] == 'none':
        ln = struct.unpack('!H', hdr[14:16])[0]
        need = {0: 0, 1: 12, 2: 36, 3: 216}.get(hdr[13] >> 4, 0)
        if ln > need:
            world.probe('v2-tlv')

    def bad(clause, msg, **det):
        det.setdefault('mixin', scn['mixin'])
        if concurrent:
            det['concurrent'] = True
            msg += ' (one of several connections served at the same time)'
        violations.append({'clause': clause, 'detail': det, 'msg': msg})
    verdict = r if r == 'ambiguous' else r[0]
    if not ok:
        bad('C18/hang', 'the parser did not return: %s' %
            world.blocked_report())
    elif 'exc' in out:
        bad('C18/exception-escaped',
            '%s escaped handle(): %s (raised in %s) for header %r' % (
                out['exc'][0], out['exc'][1], out['exc'][2], hdr[:60]),
            exc=out['exc'][0], where=out['exc'][2])
    elif r == 'ambiguous':
        pass
    elif r[0] == 'valid':
        want, n = r[1], r[2]
        if 'addr' not in rec:
            bad('C18/address', 'well-formed header %r: the connection was '
                'dropped' % hdr[:60], what='dropped')
        else:
            got = rec['addr']
            if want is None:
                good = got == (None, None)
            elif isinstance(want, bytes):
                good = got == want
            else:
                try:
                    good = (ipaddress.ip_address(got[0]) == want[0] and
                            got[1] == want[1])
                except Exception:
                    good = False
            if not good:
                bad('C18/address', 'header %r encodes source %r, the edge '
                    'was given %r' % (hdr[:60], want, got),
                    kind=c['kind'])
            elif rec['consumed'] > n:
                bad('C18/over-read', 'header is %d bytes, %d were consumed '
                    '(payload %r eaten)' % (n, rec['consumed'],
                                            data[n:rec['consumed']]),
                    kind=c['kind'])
            elif rec['consumed'] < n:
                bad('C18/under-read', 'header is %d bytes, only %d were '
                    'consumed' % (n, rec['consumed']), kind=c['kind'])
    elif r[0] == 'local':
        if 'addr' in rec:
            bad('C18/address', 'LOCAL command: the edge handler was '
                'invoked with %r' % (rec['addr'],), what='local')
    else:
        limit = r[1]
        if 'addr' not in rec:
            bad('C18/address', 'malformed header %r: the connection was '
                'dropped instead of proceeding with the invalid address'
                % hdr[:60], what='dropped-malformed')
        else:
            if rec['addr'] != (None, None):
                bad('C18/accepted-malformed', 'header %r is not '
                    'well-formed but the edge was given %r' % (
                        hdr[:70], rec['addr']), kind=c['kind'],
                    how=_how(c, hdr))
            elif rec['consumed'] > limit:
                bad('C18/over-read', 'malformed header: %d bytes consumed, '
                    'limit %d' % (rec['consumed'], limit),
                    kind=c['kind'], what='malformed')
    return verdict


def _how(scn, hdr):
    if hdr[:12] == SIG2 and len(hdr) >= 14:
        if hdr[12] & 0x0f not in (0, 1):
            return 'v2-unknown-command'
        if hdr[13] & 0x0f > 2:
            return 'v2-unknown-protocol'
        return 'v2-other'
    if hdr.startswith(b'PROXY '):
        parts = hdr.split(b'\r\n')[0].split(b' ')
        if len(parts) == 6:
            for p in parts[4:6]:
                if not p.isdigit():
                    return 'v1-port-not-digits'
        return 'v1-other'
    return 'other'


def shrink_candidates(scn, clause):
    peers = scn.get('peers') or []
    for i in range(len(peers)):
        c = dict(scn)
        c['peers'] = peers[:i] + peers[i + 1:]
        if not c['peers']:
            del c['peers']
        yield c
    for i in range(len(peers)):
        if peers[i]['payload']:
            c = dict(scn)
            c['peers'] = [dict(x) for x in peers]
            c['peers'][i]['payload'] = ''
            yield c
    if scn['segmenter'] != 'whole':
        c = dict(scn)
        c['segmenter'] = 'whole'
        yield c
    if scn['read_cap']:
        c = dict(scn)
        c['read_cap'] = None
        yield c
    if scn['payload']:
        c = dict(scn)
        c['payload'] = ''
        yield c
    if scn['lat']:
        c = dict(scn)
        c['lat'] = 0
        yield c
