"""C06 - a relay hop preserves sender, recipients and content end to end.

Two real state machines composed over the simulated network: the real
StaticSmtpRelay (SmtpRelayClient + Client) talking to the library's own real
SmtpEdge (Server + SmtpSession), and the real HttpRelay (http.client) talking
to the real WsgiEdge through a small HTTP/1.1 -> WSGI adapter.  The edge's
queue is a capturing stub.  No faults: the check is the composition."""
from __future__ import annotations

import random

import gevent

from sim.world import World
from sim import net
from sim.tls import SimTLSContext
from harness import session as hs
from harness import relay as hr
from harness.smtppeer import Listener

ID = 'C06'
RULE = ('seeded envelopes (null / plain / quoted-local-part / UTF-8 senders '
        'and 1-6 recipients, header blocks with folding and 8-bit values, '
        'bodies with dot lines, bare LF/CR, no final newline, 8-bit bytes) '
        'relayed by the real SMTP relay to the real SmtpEdge under seeded '
        'server configurations (PIPELINING / 8BITMIME / SMTPUTF8 / SIZE / '
        'STARTTLS / AUTH advertised or withheld, HELO fallback, connection '
        'reuse, queue errors) and by the real HttpRelay to the real WsgiEdge; '
        'seeded segmentation both ways; non-trivial = quoted/UTF-8 address or '
        'dot/bare-newline/8-bit body or withheld extension; distinct = '
        'distinct event-log digest')
COMPONENTS = {
    'real': ['slimta.relay.smtp.static.StaticSmtpRelay',
             'slimta.relay.smtp.client.SmtpRelayClient',
             'slimta.smtp.client.Client', 'slimta.smtp.server.Server',
             'slimta.edge.smtp.SmtpEdge/SmtpSession',
             'slimta.smtp.extensions.Extensions', 'slimta.relay.http.HttpRelay',
             'slimta.http.HTTPConnection (http.client)',
             'slimta.edge.wsgi.WsgiEdge', 'slimta.envelope.Envelope',
             'slimta.smtp.datasender/datareader'],
    'stub': ['SimLoop', 'SimSocket', 'SimTLS', 'capturing queue',
             'HTTP/1.1 -> WSGI adapter (PEP-3333 environ, repeated headers '
             'joined with ",")', 'Server subclass dropping extensions'],
}
ASSUMPTIONS = ['LMTP is not covered: the library has no LMTP server side to '
               'receive what LmtpRelayClient sends']
BUDGET = {'quick': 25000, 'thorough': 300000}
PROBES = ['smtp', 'http', 'null-sender', 'quoted-local-part', 'utf8-address',
          'no-pipelining', 'no-8bitmime', 'no-smtputf8', 'size-advertised',
          'starttls', 'auth', 'helo-fallback', 'connection-reuse',
          'queue-error-reply', '8bit-body', 'dot-lines', 'bare-newlines',
          'body-starts-blank', 'concurrent-requests', 'lmtp-client',
          'binary-encoder-configured',
          'no-final-newline', 'folded-header', '7bit-conversion-refused',
          'rcpt-rejected-by-edge', 'duplicate-recipient']
STATES_MEASURE = 'distinct (transport, withheld extensions, address kinds, body flags) tuples'
STEP_CAP = 300000


def gen_address(rng, utf8_ok, k):
    c = rng.random()
    if c < 0.5:
        return 'user%d@d%d.example' % (k, k % 3), 'plain'
    if c < 0.8:
        lp = rng.choice(['"a b"', '"a>b"', '"a@b"', '"x<y>z"', '"q\\"uote"',
                         '"semi;colon"', '"comma,here"'])
        return '%s@q%d.example' % (lp, k), 'quoted'
    if utf8_ok:
        return rng.choice(['üser%d@exämple.org', 'ユーザー%d@例.jp',
                           'u%d@bücher.example']) % k, 'utf8'
    return 'plus+tag%d@d.example' % k, 'plain'


def generate(seed, tier='quick'):
    rng = random.Random(seed)
    transport = rng.choice(['smtp', 'smtp', 'smtp', 'http'])
    drop = []
    if transport == 'smtp':
        for ext in ('PIPELINING', '8BITMIME', 'SMTPUTF8'):
            if rng.random() < 0.25:
                drop.append(ext)
    tls = transport == 'smtp' and rng.random() < 0.25
    auth = tls and rng.random() < 0.6       # plain-text AUTH needs TLS
    helo = transport == 'smtp' and not tls and rng.random() < 0.1
    utf8_ok = transport == 'http' or ('SMTPUTF8' not in drop and not helo)
    n = rng.randint(1, 3)
    msgs = []
    for j in range(n):
        kinds = set()
        if rng.random() < 0.15:
            sender = ''
            kinds.add('null')
        else:
            sender, kd = gen_address(rng, utf8_ok, j)
            kinds.add(kd)
        rcpts = []
        for i in range(rng.randint(1, 6)):
            a, kd = gen_address(rng, utf8_ok, 10 * j + i)
            if transport == 'smtp' and rng.random() < 0.15:
                a = 'nouser%d@d.example' % (10 * j + i)   # the edge says 550
                kd = 'rejected'
            rcpts.append(a)
            kinds.add(kd)
        if len(rcpts) > 1 and rng.random() < 0.12:
            # the same address twice is a legal recipient list
            rcpts.insert(rng.randrange(1, len(rcpts) + 1),
                         rcpts[rng.randrange(len(rcpts))])
            kinds.add('duplicate')
        hdr = b'From: someone@example.com\r\nSubject: hop %d\r\n' % j
        if rng.random() < 0.3:
            hdr += b'X-Folded: first part\r\n second part\r\n\tthird\r\n'
        if rng.random() < 0.2:
            hdr += b'X-Eight: caf\xc3\xa9\r\n'
        body_kind = rng.choice(['plain', 'dots', 'bare', 'nonl', '8bit',
                                'empty', 'mixed', 'leadblank', 'leadspace'])
        body = {
            'leadblank': rng.choice([b'\r\n\r\nfirst line\r\n\r\nlast\r\n',
                                     b'\r\nx\r\n', b'\r\n', b'\n\nbare\r\n']),
            'leadspace': rng.choice([b' \r\nafter a blank-looking line\r\n',
                                     b'\t\r\n\r\nx\r\n', b' x\r\n']),
            'plain': b'line one\r\nline two\r\n',
            'dots': b'.\r\n..\r\n.leading dot\r\nend\r\n.\r\n',
            'bare': b'bare\nlf and bare\rcr\r\nnext\n.\nx\r\n',
            'nonl': b'no final newline',
            '8bit': b'caf\xc3\xa9 \xff\xfe raw\r\n',
            'empty': b'',
            'mixed': b'.\n\r.\r\n\xe9.\r\n..\n',
        }[body_kind]
        msgs.append({'sender': sender, 'rcpts': rcpts, 'hdr': hdr.hex(),
                     'body': body.hex(), 'kinds': sorted(kinds),
                     'body_kind': body_kind,
                     'queue': rng.choice([None, None, None, 'qerr',
                                          'qerr-reply'])})
    lmtp = transport == 'smtp' and not helo and rng.random() < 0.25
    if lmtp:
        # the SMTP edge gives one reply to the content: an LMTP client can
        # use it for messages with one accepted recipient
        for m in msgs:
            acc = [r for r in m['rcpts'] if not r.startswith('nouser')]
            rej = [r for r in m['rcpts'] if r.startswith('nouser')]
            m['rcpts'] = rej[:1] + acc[:1] if acc else rej[:1]
    return {'property': ID, 'harness': 'hop', 'seed': seed, 'lmtp': lmtp,
            'sched_seed': rng.getrandbits(48), 'transport': transport,
            'drop': drop, 'max_size': rng.choice([None, None, 100000]),
            'tls': tls, 'auth': auth, 'helo_fallback': helo,
            'idle_timeout': rng.choice([None, 5.0]),
            'messages': msgs,
            'seg_c': rng.choice(['whole', 'line', 'few', 'cuts']),
            'seg_s': rng.choice(['whole', 'line', 'few']),
            'http_concurrent': rng.random() < 0.4,
            'binary_encoder': transport == 'smtp' and rng.random() < 0.35}


def execute(scn, debug=False):
    hs.install_seams()
    hr.install_seams()
    world = World(scn['sched_seed'], step_cap=STEP_CAP, debug=debug)
    try:
        hs.PTR.latency = 0.0
        hs.PTR.answer = None
        result = {'violations': [], 'ext': []}
        fn = _smtp if scn['transport'] == 'smtp' else _http
        world.probe(scn['transport'])
        g = gevent.spawn(fn, world, scn, result)
        ok = world.wait(g, 1000.0)
        if not ok:
            result['violations'].append({
                'clause': 'C06/hang', 'detail': {'transport': scn['transport']},
                'msg': 'hop did not finish: %s' % world.blocked_report()})
        elif not g.successful():
            world.harness_errors.append('driver died: %r' % (g.exception,))
        flags = set()
        for m in scn['messages']:
            for k in m['kinds']:
                world.probe({'null': 'null-sender', 'quoted':
                             'quoted-local-part', 'utf8': 'utf8-address',
                             'rejected': 'rcpt-rejected-by-edge',
                             'duplicate': 'duplicate-recipient',
                             'plain': scn['transport']}[k])
                flags.add(k)
            bk = m['body_kind']
            flags.add(bk)
            world.probe({'dots': 'dot-lines', 'bare': 'bare-newlines',
                         'nonl': 'no-final-newline', '8bit': '8bit-body',
                         'mixed': 'bare-newlines',
                         'leadblank': 'body-starts-blank',
                         'leadspace': 'body-starts-blank'}.get(
                             bk, scn['transport']))
            if b'X-Folded' in bytes.fromhex(m['hdr']):
                world.probe('folded-header')
        for e in scn['drop']:
            world.probe('no-' + e.lower())
        if scn.get('tls'):
            world.probe('starttls')
        if scn.get('auth'):
            world.probe('auth')
        if scn.get('helo_fallback'):
            world.probe('helo-fallback')
        if scn.get('max_size'):
            world.probe('size-advertised')
        nontrivial = bool(flags - {'plain', 'empty'}) or bool(scn['drop'])
        return {
            'violations': result['violations'][:2], 'digest': world.digest(),
            'nontrivial': nontrivial, 'probes': dict(world.probes),
            'faults': dict(world.faults),
            'states': [hash((scn['transport'], tuple(scn['drop']),
                             tuple(sorted(flags))))],
            'steps': world.loop.steps, 'sim_s': world.loop.elapsed(),
            'inconclusive': world.loop.cap_hit,
            'harness_errors': list(world.harness_errors),
            'summary': {'transport': scn['transport'], 'drop': scn['drop'],
                        'messages': [(m['sender'], m['rcpts'], m['body_kind'])
                                     for m in scn['messages']],
                        'results': result.get('results')},
        }
    finally:
        world.close()


class CaptureQueue(object):
    def __init__(self, plan):
        self.plan = plan
        self.got = []

    def enqueue(self, envelope):
        from slimta.queue import QueueError
        from slimta.smtp.reply import Reply
        k = len(self.got)
        try:
            k = int(str(envelope.headers['Subject']).split()[-1])
        except Exception:
            pass
        h, b = envelope.flatten()
        self.got.append({'sender': envelope.sender,
                         'rcpts': list(envelope.recipients), 'hdr': h,
                         'body': b})
        p = self.plan[k] if k < len(self.plan) else None
        if p == 'qerr':
            return [(envelope, QueueError('scripted'))]
        if p == 'qerr-reply':
            e = QueueError('scripted')
            e.reply = Reply('452', '4.3.1 scripted: insufficient storage')
            return [(envelope, e)]
        return [(envelope, 'id%d' % k)]


def _envelope(m):
    from slimta.envelope import Envelope
    env = Envelope(m['sender'], list(m['rcpts']))
    # header block parsed on its own, body set as is: what is handed to the
    # relay must not depend on the header/body split under test at the edge
    env.parse(bytes.fromhex(m['hdr']) + b'\r\n')
    env.message = bytes.fromhex(m['body'])
    return env


def _judge(result, scn, j, m, env_flat, captured, res, edge_code,
           skip_content=False):
    def bad(clause, msg, **det):
        det.setdefault('transport', scn['transport'])
        result['violations'].append({'clause': clause, 'detail': det,
                                     'msg': msg})
    hdr, body = env_flat
    if captured is None:
        return bad('C06/content', 'message %d never reached the edge\'s queue '
                   '(relay result %r)' % (j, res), what='not-received')
    if captured['sender'] != m['sender']:
        return bad('C06/sender', 'message %d: sender %r arrived as %r' % (
            j, m['sender'], captured['sender']), kinds=m['kinds'])
    want_rcpts = [r for r in m['rcpts'] if not r.startswith('nouser')]
    if captured['rcpts'] != want_rcpts:
        return bad('C06/recipients', 'message %d: recipients %r (the edge '
                   'accepts %r) arrived as %r' % (j, m['rcpts'], want_rcpts,
                                                  captured['rcpts']),
                   kinds=m['kinds'])
    if skip_content:
        return
    sent = hdr + body
    got = captured['hdr'] + captured['body']
    want = [sent]
    if not sent.endswith(b'\r\n'):
        want.append(sent + b'\r\n')
    if got not in want:
        n = 0
        while n < min(len(got), len(sent)) and got[n] == sent[n]:
            n += 1
        return bad('C06/content', 'message %d: content differs at byte %d: '
                   'sent %r, received %r' % (j, n, sent[max(0, n - 20):n + 30],
                                             got[max(0, n - 20):n + 30]),
                   body=m['body_kind'])


class _LazyInput(object):
    """wsgi.input over a socket: Content-Length bytes, read on demand"""

    def __init__(self, sock, buf, n):
        self.sock, self.buf, self.left = sock, buf, n
        self.eof = False

    def read(self, size=-1):
        want = self.left if size is None or size < 0 else min(size, self.left)
        while len(self.buf) < want and not self.eof:
            d = self.sock.recv(4096)
            if not d:
                self.eof = True
                break
            self.buf += d
        data, self.buf = self.buf[:want], self.buf[want:]
        self.left -= len(data)
        return data

    def readline(self, size=-1):
        return self.read(size)

    def rest(self):
        """bytes behind this request's body (the next request), or None
        when the connection ended inside the body"""
        self.read()
        return None if self.left else self.buf


def _smtp(world, scn, result):
    import slimta.edge.smtp as esmtp
    from slimta.smtp.server import Server
    from slimta.relay.smtp.static import StaticSmtpRelay
    from slimta.relay.smtp.client import SmtpRelayClient
    drop = list(scn['drop'])
    ext_seen = []
    srv_ext = []

    class ThinServer(Server):
        def __init__(self, *a, **kw):
            Server.__init__(self, *a, **kw)
            for e in drop:
                self.extensions.drop(e)
            srv_ext.append(self)

    esmtp.Server = ThinServer
    try:
        plan = [m['queue'] for m in scn['messages']]
        q = CaptureQueue(plan)

        class V(esmtp.SmtpValidators):
            n = [0]

            def handle_ehlo(self, reply, ehlo_as):
                if scn['helo_fallback']:
                    reply.code = '500'
                    reply.message = '5.5.2 EHLO not understood'

            def handle_auth(self, reply, creds):
                pass

            def handle_rcpt(self, reply, recipient, params):
                if recipient.startswith('nouser'):
                    reply.code = '550'
                    reply.message = '5.1.1 no such user'
        class LmtpSession(esmtp.SmtpSession):
            """the edge's session class, also greeting LMTP clients: LHLO
            is EHLO by another name (RFC 2033)"""

            def LHLO(self, reply, arg, server):
                if not server.bannered or not arg:
                    return
                lhlo_as = arg.decode('utf-8')
                reply.code = '250'
                reply.enhanced_status_code = False
                reply.message = 'Hello ' + lhlo_as
                self.EHLO(reply, lhlo_as)
                if reply.code == '250':
                    reply.message = server.extensions.build_string(
                        reply.message)
                    server.have_mailfrom = None
                    server.have_rcptto = None
                    server.ehlo_as = lhlo_as
        edge = esmtp.SmtpEdge(None, q, max_size=scn['max_size'],
                              validator_class=V,
                              auth=[b'PLAIN'] if scn['auth'] else False,
                              context=SimTLSContext() if scn['tls'] else None,
                              hostname='edge.sim',
                              session_class=LmtpSession if scn.get('lmtp')
                              else None)
        servers = []

        def connect(address, *a, **kw):
            ca, cb = net.socketpair(
                world, 'hop', a_opts={'segmenter': scn['seg_c'],
                                      'seg_param': 0.2,
                                      'latency': net.LAT_SMALL},
                b_opts={'segmenter': scn['seg_s'], 'latency': net.LAT_SMALL})
            servers.append(gevent.spawn(edge.handle, cb, ca.getsockname()))
            return ca

        base_client = SmtpRelayClient
        relay_class = StaticSmtpRelay
        if scn.get('lmtp'):
            from slimta.relay.smtp.lmtpclient import LmtpRelayClient
            from slimta.relay.smtp.static import StaticLmtpRelay
            base_client, relay_class = LmtpRelayClient, StaticLmtpRelay
            world.probe('lmtp-client')

        class RecClient(base_client):
            def _ehlo(self):
                r = base_client._ehlo(self)
                ext_seen.append(dict(self.client.extensions.extensions))
                return r
        kwargs = dict(socket_creator=connect, ehlo_as='relay.sim',
                      context=SimTLSContext(), connect_timeout=20.0,
                      command_timeout=20.0, data_timeout=40.0,
                      idle_timeout=scn['idle_timeout'],
                      client_class=RecClient)
        if scn['auth'] and not scn['helo_fallback']:
            kwargs['credentials'] = ('user', 'secret')
        if scn.get('binary_encoder'):
            # the documented option for peers without 8BITMIME: 8-bit
            # content is re-encoded (and legitimately changes), 7-bit
            # content must come through untouched
            from email.encoders import encode_base64
            kwargs['binary_encoder'] = encode_base64
            world.probe('binary-encoder-configured')
        relay = relay_class('edge.sim', 25, **kwargs)
        results = []
        conns = 0
        for j, m in enumerate(scn['messages']):
            env = _envelope(m)
            flat = env.flatten()
            before = len(q.got)
            res = hr.classify_result(lambda: relay._attempt(env, 0))
            results.append((res['whole'], res['per'], res.get('reply')))
            captured = q.got[before] if len(q.got) > before else None
            # when 8BITMIME is withheld and the body is 8-bit the relay may
            # refuse to convert: permanent failure 5.6.3
            eight = any(c > 127 for c in flat[1])
            if ('8BITMIME' in drop or scn['helo_fallback']) and eight \
                    and captured is None:
                if res['whole'] == 'perm' and res['reply'] and \
                        res['reply'][0] == '554':
                    world.probe('7bit-conversion-refused')
                    continue
            if res['whole'] and res['whole'].startswith('foreign:'):
                # an exception that is not a relay error is C11's subject,
                # unless the address is legitimately unrepresentable
                result['violations'].append({
                    'clause': 'C06/result',
                    'detail': {'transport': 'smtp', 'exc': res['raised'],
                               'site': res.get('site')},
                    'msg': 'message %d (%r -> %r): relay raised %s: %s at %s'
                           % (j, m['sender'], m['rcpts'], res['raised'],
                              res.get('msg'), res.get('site'))})
                break
            accepted = [r for r in m['rcpts'] if not r.startswith('nouser')]
            if not accepted:
                # every recipient refused: a permanent failure, nothing queued
                if res['whole'] != 'perm' or captured is not None:
                    result['violations'].append({
                        'clause': 'C06/result',
                        'detail': {'transport': 'smtp', 'what': 'all-rejected'},
                        'msg': 'message %d: the edge refused every recipient '
                               'with 550 but the relay reports %r' % (j, res)})
                    break
                continue
            converted = bool(scn.get('binary_encoder')) and eight and \
                ('8BITMIME' in drop or scn['helo_fallback'])
            _judge(result, scn, j, m, flat, captured, res, None,
                   skip_content=converted)
            if result['violations']:
                break
            # the relay's result carries the code the edge replied
            want = {'qerr': 'temp', 'qerr-reply': 'temp'}.get(m['queue'], 'ok')
            rep = res['whole']
            if res['per'] is not None:
                per = res['per']
                wrong = [(r, per.get(r)) for r in set(m['rcpts'])
                         if per.get(r) != ('perm' if r.startswith('nouser')
                                           else want)]
                if wrong:
                    result['violations'].append({
                        'clause': 'C06/result',
                        'detail': {'transport': 'smtp',
                                   'what': 'per-recipient'},
                        'msg': 'message %d: recipients %r; the edge refused '
                               'those starting with "nouser" (550) and %s the '
                               'rest, but the relay reports %r' % (
                                   j, m['rcpts'], 'accepted' if want == 'ok'
                                   else 'deferred', per)})
                    break
                rep = want
            if rep != want:
                result['violations'].append({
                    'clause': 'C06/result',
                    'detail': {'transport': 'smtp', 'want': want},
                    'msg': 'message %d: the edge answered %s but the relay '
                           'reports %r (%r)' % (j, 'accepted' if want == 'ok'
                                                else 'a queue error', rep,
                                                res)})
                break
            if m['queue'] == 'qerr-reply':
                world.probe('queue-error-reply')
                if res['reply'] and res['reply'][0] != '452':
                    result['violations'].append({
                        'clause': 'C06/result',
                        'detail': {'transport': 'smtp', 'what': 'code'},
                        'msg': 'the edge replied 452, the relay reports %r'
                               % (res['reply'],)})
                    break
            gevent.sleep(0.3)
        result['results'] = results
        if len(servers) < len(scn['messages']) and len(results) == len(
                scn['messages']):
            world.probe('connection-reuse')
        # extension tables: what the client saw == what the server had
        if ext_seen and srv_ext and not result['violations'] and \
                not scn['helo_fallback']:
            cl = ext_seen[0]
            sv = srv_ext[0].extensions.extensions
            ck = set(k.upper() for k in cl)
            sk = set(k.upper() for k in sv)
            # STARTTLS is dropped server-side after the handshake
            if ck - {'STARTTLS'} != sk - {'STARTTLS'}:
                result['violations'].append({
                    'clause': 'C06/extensions',
                    'detail': {'transport': 'smtp'},
                    'msg': 'client saw extensions %r, server advertised %r' % (
                        sorted(ck), sorted(sk))})
    finally:
        esmtp.Server = Server


def _http(world, scn, result):
    import io
    from slimta.edge.wsgi import WsgiEdge
    plan = [m['queue'] for m in scn['messages']]
    q = CaptureQueue(plan)
    edge = WsgiEdge(q, hostname='edge.sim')

    class Adapter(object):
        conn = None

        def serve(self, sock, conn_n=0):
            from harness.smtppeer import Conn
            self.conn = Conn(conn_n, world.loop._now)
            buf = b''
            try:
                while True:
                    while b'\r\n\r\n' not in buf:
                        d = sock.recv(4096)
                        if not d:
                            return
                        buf += d
                    head, buf = buf.split(b'\r\n\r\n', 1)
                    lines = head.split(b'\r\n')
                    method, path, _ = lines[0].split(b' ', 2)
                    environ = {
                        'REQUEST_METHOD': method.decode(), 'PATH_INFO':
                        path.decode(), 'SERVER_NAME': 'edge.sim',
                        'SERVER_PORT': '80', 'SERVER_PROTOCOL': 'HTTP/1.1',
                        'REMOTE_ADDR': '192.0.2.9', 'wsgi.url_scheme': 'http',
                        'wsgi.errors': io.StringIO()}
                    for l in lines[1:]:
                        k, _, v = l.partition(b':')
                        name = k.decode('latin1').strip().upper().replace(
                            '-', '_')
                        v = v.decode('latin1').strip()
                        if name == 'CONTENT_LENGTH':
                            environ['CONTENT_LENGTH'] = v
                        elif name == 'CONTENT_TYPE':
                            environ['CONTENT_TYPE'] = v
                        else:
                            key = 'HTTP_' + name
                            if key in environ:
                                environ[key] += ',' + v
                            else:
                                environ[key] = v
                    n = int(environ.get('CONTENT_LENGTH', '0'))
                    # like a real WSGI server: the application is called as
                    # soon as the request head is in, and reading its input
                    # blocks until the body has arrived
                    inp = _LazyInput(sock, buf, n)
                    environ['wsgi.input'] = inp
                    box = {}

                    def start_response(status, headers, exc_info=None):
                        box['status'] = status
                        box['headers'] = headers
                    out = edge(environ, start_response)
                    data = b''.join(x if isinstance(x, bytes) else
                                    x.encode() for x in (out or ()))
                    buf = inp.rest()
                    if buf is None:
                        return
                    resp = 'HTTP/1.1 %s\r\n' % box['status']
                    for k, v in box['headers']:
                        if k.lower() != 'content-length':
                            resp += '%s: %s\r\n' % (k, v)
                    resp += 'Content-Length: %d\r\n\r\n' % len(data)
                    sock.sendall(resp.encode('latin1') + data)
            finally:
                try:
                    sock.close()
                except Exception:
                    pass
    listener = Listener(world, lambda k: Adapter(), label='hop',
                        client_opts={'segmenter': scn['seg_c'],
                                     'seg_param': 0.2,
                                     'latency': net.LAT_SMALL},
                        server_opts={'segmenter': scn['seg_s'],
                                     'latency': net.LAT_SMALL})
    import slimta.http as hmod
    hmod.socket = hr._HttpSocketShim(listener)
    from slimta.relay.http import HttpRelay
    relay = HttpRelay('http://edge.sim/', ehlo_as='relay.sim', timeout=60.0,
                      idle_timeout=scn['idle_timeout'])
    results = []
    conc = {}
    if scn.get('http_concurrent') and len(scn['messages']) > 1:
        # all messages at once, each on its own connection to the one edge
        world.probe('concurrent-requests')

        def one(j, m):
            env = _envelope(m)
            conc[j] = hr.classify_result(lambda: relay._attempt(env, 0))
        gs = [gevent.spawn(one, j, m) for j, m in enumerate(scn['messages'])]
        for g in gs:
            world.wait(g, 600.0)
    for j, m in enumerate(scn['messages']):
        env = _envelope(m)
        flat = env.flatten()
        before = len(q.got)
        if conc:
            res = conc.get(j) or {'whole': 'foreign:none', 'per': None,
                                  'raised': 'no result', 'msg': 'attempt did '
                                  'not return'}
            mine = [c for c in q.got
                    if (b'Subject: hop %d\r\n' % j) in c['hdr']]
            captured = mine[0] if mine else None
            if len(mine) > 1:
                result['violations'].append({
                    'clause': 'C06/content', 'detail': {'transport': 'http',
                                                        'what': 'duplicated'},
                    'msg': 'message %d reached the queue %d times' % (
                        j, len(mine))})
                break
        else:
            res = hr.classify_result(lambda: relay._attempt(env, 0))
            captured = q.got[before] if len(q.got) > before else None
        results.append((res['whole'], res['per'], res.get('reply')))
        if res['whole'] and res['whole'].startswith('foreign:'):
            result['violations'].append({
                'clause': 'C06/result',
                'detail': {'transport': 'http', 'exc': res['raised'],
                           'site': res.get('site')},
                'msg': 'message %d (%r -> %r): relay raised %s: %s at %s' % (
                    j, m['sender'], m['rcpts'], res['raised'], res.get('msg'),
                    res.get('site'))})
            break
        _judge(result, scn, j, m, flat, captured, res, None)
        if result['violations']:
            break
        want = {'qerr': 'temp', 'qerr-reply': 'temp'}.get(m['queue'], 'ok')
        if res['whole'] != want:
            result['violations'].append({
                'clause': 'C06/result', 'detail': {'transport': 'http',
                                                   'want': want},
                'msg': 'message %d: the edge %s but the relay reports %r' % (
                    j, 'accepted it' if want == 'ok' else
                    'reported a queue error', res)})
            break
        if m['queue'] == 'qerr-reply':
            world.probe('queue-error-reply')
        gevent.sleep(0.3)
    result['results'] = results
    if len(listener.client_socks) < len(results):
        world.probe('connection-reuse')


def shrink_candidates(scn, clause):
    ms = scn['messages']
    if len(ms) > 1:
        for i in range(len(ms)):
            c = dict(scn)
            c['messages'] = ms[:i] + ms[i + 1:]
            yield c
    for i, m in enumerate(ms):
        if len(m['rcpts']) > 1:
            for j in range(len(m['rcpts'])):
                c = dict(scn)
                mm = dict(m, rcpts=m['rcpts'][:j] + m['rcpts'][j + 1:])
                c['messages'] = ms[:i] + [mm] + ms[i + 1:]
                yield c
    for k in ('tls', 'auth', 'helo_fallback'):
        if scn.get(k):
            c = dict(scn)
            c[k] = False
            yield c
    if scn['drop']:
        for e in scn['drop']:
            c = dict(scn)
            c['drop'] = [x for x in scn['drop'] if x != e]
            yield c
    for k in ('seg_c', 'seg_s'):
        if scn[k] != 'whole':
            c = dict(scn)
            c[k] = 'whole'
            yield c
