"""C02 - an edge acknowledges a message only after custody of every recipient.

Real SmtpEdge.handle on a SimSocket and real WsgiEdge called as a WSGI app,
over the real Queue (seeded policy chain, fault-injecting storage) or the
real ProxyQueue over a scripted relay.  Judged at the instant the client
receives the final DATA reply / the HTTP status."""
from __future__ import annotations

import base64
import io
import random

import gevent

from sim.world import World, H
from sim import net
from harness import session as hs
from harness import queue as hq
from .c07 import Client as LineClient

ID = 'C02'
RULE = ('seeded messages with 1-5 recipients over 1-3 domains through the '
        'SMTP or WSGI edge into a real Queue with a seeded chain of queue '
        'policies (RecipientSplit, RecipientDomainSplit, Forward, header '
        'policies; repeated, any order) over a storage whose k-th write '
        'fails (QueueError with/without reply, other exception) or is slow, '
        'optionally while 1-2 other clients\' slow writes occupy the bounded '
        'store pool, '
        'or into a real ProxyQueue over a scripted relay (whole-message or '
        'per-recipient results); one SMTP scenario in ten runs the edge with '
        'a size limit below or above the message (552 and nothing written, '
        'or as before); non-trivial = the policy chain produced >= 2 '
        'envelopes or a write/relay failure was injected; distinct = distinct '
        'event-log digest')
COMPONENTS = {
    'real': ['slimta.edge.smtp.SmtpEdge/SmtpSession', 'slimta.edge.wsgi.WsgiEdge',
             'slimta.edge.Edge.handoff', 'slimta.queue.Queue.enqueue/_pool_imap/'
             '_run_policies', 'slimta.queue.proxy.ProxyQueue',
             'slimta.policy.split/forward/headers', 'slimta.smtp.server.Server',
             'slimta.queue.dict.DictStorage'],
    'stub': ['SimLoop', 'SimSocket', 'FaultyStore (fault-injecting wrapper '
             'around DictStorage)', 'scripted relay', 'WSGI caller building a '
             'PEP-3333 environ (repeated headers joined with ", ")',
             'scripted SMTP client'],
}
BUDGET = {'quick': 30000, 'thorough': 500000}
PROBES = ['split>=2', 'split>=3', 'failure-first-write', 'failure-last-write',
          'failure-middle-write', 'slow-write', 'qerr-with-reply',
          'non-queueerror', 'proxy-partial-result', 'proxy-whole-failure',
          'wsgi', 'smtp', 'forward-policy', 'store-pool-bounded',
          'competing-clients', 'size-limit-refused', 'size-limit-passed']
STATES_MEASURE = 'distinct (edge, queue kind, #envelopes, index of failed write, failure kind)'
STEP_CAP = 200000
COMPETITOR = 'competitor@c.example'


def generate(seed, tier='quick'):
    rng = random.Random(seed)
    nr = rng.randint(1, 5)
    doms = ['d%d.example' % i for i in range(rng.randint(1, 3))]
    rcpts = ['r%d@%s' % (i, rng.choice(doms)) for i in range(nr)]
    if rng.random() < 0.1:
        rcpts[rng.randrange(nr)] = rcpts[0].upper().replace('R0@', 'X0@')
    scn = {'property': ID, 'harness': 'edge', 'seed': seed,
           'sched_seed': rng.getrandbits(48),
           'edge': rng.choice(['smtp', 'smtp', 'wsgi']),
           'queue': rng.choice(['queue', 'queue', 'queue', 'proxy']),
           'sender': rng.choice(['s@a.example', '']),
           'rcpts': rcpts,
           'body': (b'Subject: t\r\n\r\nhello %d\r\n' % rng.randint(0, 99)).hex()}
    if scn['queue'] == 'queue':
        chain = []
        for _ in range(rng.randint(0, 3)):
            chain.append(rng.choice(['rsplit', 'dsplit', 'dsplit', 'forward',
                                     'date', 'msgid', 'received']))
        scn['policies'] = chain
        nw = 6
        plan = ['ok'] * nw
        if rng.random() < 0.7:
            plan[rng.randrange(nw if rng.random() < 0.4 else 3)] = rng.choice(
                ['qerr', 'qerr-reply', 'exc', 'gtimeout', 'slow', 'slow'])
        if rng.random() < 0.15:
            plan[rng.randrange(nw)] = rng.choice(['qerr', 'slow'])
        scn['write_plan'] = plan
        scn['write_lat'] = rng.choice([0.0, 0.0, 0.001, 0.01])
        scn['slow'] = rng.choice([0.5, 2.0, 30.0])
        scn['store_pool'] = rng.choice([None, None, 1, 2])
        if rng.random() < 0.35:
            # other clients of the same queue whose (slow) writes hold the
            # store pool's slots when this message is handed over
            scn['competitor'] = {'n': rng.choice([1, 2]),
                                 'slow': rng.choice([0.3, 2.0, 2.0])}
    else:
        t = rng.choice(['none', 'reply', 'temp', 'perm', 'map', 'map', 'seq'])
        spec = {'t': t, 'lat': rng.choice([0.0, 0.01, 1.0]), 'v': 0}
        if t in ('map', 'seq'):
            spec['r'] = {r: [rng.choice(['ok', 'ok', 'temp', 'perm']), 0]
                         for r in rcpts}
            if t == 'seq' and rng.random() < 0.5:
                spec['as'] = 'tuple'
        scn['relay_spec'] = spec
    r2 = random.Random(H(seed, 'size'))
    if scn['edge'] == 'smtp' and r2.random() < 0.1:
        # a size limit on the edge: 10 refuses this message after the whole
        # of it was read (552, nothing to write), 1000 lets it through
        scn['max_size'] = r2.choice([10, 10, 1000])
    return scn


def faulty_store_class():
    from slimta.queue import QueueStorage, QueueError
    from slimta.queue.dict import DictStorage
    from slimta.smtp.reply import Reply

    class FaultyStore(QueueStorage):
        def __init__(self, world, scn, log):
            QueueStorage.__init__(self)
            self.inner = DictStorage()
            self.world = world
            self.scn = scn
            self.log = log
            self.n = 0

        def write(self, envelope, timestamp):
            if envelope.sender == COMPETITOR:
                # another client's message: slow, never failing, not part
                # of the message under observation
                self.world.log('WRITE', 'competitor', 'start')
                gevent.sleep(self.scn['competitor']['slow'])
                self.world.log('WRITE', 'competitor', 'end')
                return self.inner.write(envelope, timestamp)
            k = self.n
            self.n += 1
            plan = self.scn['write_plan']
            what = plan[k] if k < len(plan) else 'ok'
            w = self.world
            rec = {'k': k, 'rcpts': list(envelope.recipients),
                   'sender': envelope.sender, 't0': w.loop._now, 't1': None,
                   'ok': None, 'what': what}
            self.log.append(rec)
            w.log('WRITE', k, what, 'start')
            lat = self.scn.get('write_lat', 0.0)
            if what == 'slow':
                lat = self.scn.get('slow', 1.0)
                w.fault('slow-write')
            if lat:
                gevent.sleep(lat)
            try:
                if what == 'qerr':
                    w.fault('write-queueerror')
                    raise QueueError('injected write failure')
                if what == 'qerr-reply':
                    w.fault('write-queueerror-with-reply')
                    e = QueueError('injected write failure')
                    e.reply = Reply('452', '4.3.1 injected: insufficient '
                                    'system storage')
                    raise e
                if what == 'exc':
                    w.fault('write-other-exception')
                    raise IOError('injected non-QueueError write failure')
                if what == 'gtimeout':
                    # what a storage driver with its own time limit raises
                    # (gevent.Timeout is a BaseException, not an Exception)
                    w.fault('write-gevent-timeout')
                    raise gevent.Timeout(0.2)
                id = self.inner.write(envelope, timestamp)
                rec['ok'] = True
                rec['id'] = id
                return id
            except BaseException:
                if rec['ok'] is None:
                    rec['ok'] = False
                raise
            finally:
                rec['t1'] = w.loop._now
                w.log('WRITE', k, 'end', rec['ok'])

        def load(self):
            return self.inner.load()

        def get(self, id):
            return self.inner.get(id)

        def remove(self, id):
            return self.inner.remove(id)

        def set_timestamp(self, id, ts):
            return self.inner.set_timestamp(id, ts)

        def increment_attempts(self, id):
            return self.inner.increment_attempts(id)

        def set_recipients_delivered(self, id, idx):
            return self.inner.set_recipients_delivered(id, idx)

    return FaultyStore


def build_queue(world, scn, wlog, truth):
    from slimta.queue import Queue
    from slimta.queue.proxy import ProxyQueue
    if scn['queue'] == 'proxy':
        obs = hq.new_obs()
        rscn = {'outcomes': {}, 'bounce_outcomes': [scn['relay_spec']]}
        relay = hq.script_relay_class()(world, rscn, obs)
        truth['obs'] = obs
        return ProxyQueue(relay)
    from slimta.policy.split import RecipientSplit, RecipientDomainSplit
    from slimta.policy.forward import Forward
    from slimta.policy.headers import AddDateHeader, AddMessageIdHeader, \
        AddReceivedHeader
    store = faulty_store_class()(world, scn, wlog)
    q = Queue(store, None, store_pool=scn.get('store_pool'))
    for p in scn['policies']:
        if p == 'rsplit':
            q.add_policy(RecipientSplit())
        elif p == 'dsplit':
            q.add_policy(RecipientDomainSplit())
        elif p == 'forward':
            f = Forward()
            f.add_mapping(r'^r0@', 'fwd0@')
            q.add_policy(f)
        elif p == 'date':
            q.add_policy(AddDateHeader())
        elif p == 'msgid':
            q.add_policy(AddMessageIdHeader('edge.sim'))
        elif p == 'received':
            q.add_policy(AddReceivedHeader())
    return q


def execute(scn, debug=False):
    hs.install_seams()
    world = World(scn['sched_seed'], step_cap=STEP_CAP, debug=debug)
    try:
        hs.PTR.latency = 0.0
        hs.PTR.answer = None
        wlog = []
        truth = {}
        q = build_queue(world, scn, wlog, truth)
        result = {'violations': []}
        fn = _smtp if scn['edge'] == 'smtp' else _wsgi
        world.probe(scn['edge'])
        if scn.get('competitor') and scn['queue'] == 'queue':
            from slimta.envelope import Envelope
            world.probe('competing-clients')
            for ci in range(scn['competitor']['n']):
                env = Envelope(COMPETITOR, ['x%d@c.example' % ci])
                env.parse(b'Subject: other\r\n\r\nother\r\n')
                gevent.spawn(q.enqueue, env)
        g = gevent.spawn(fn, world, scn, q, result)
        ok = world.wait(g, 500.0)
        if not ok:
            result['violations'].append({
                'clause': 'C02/no-reply', 'detail': {'edge': scn['edge']},
                'msg': 'the edge never answered: %s' % world.blocked_report()})
        elif not g.successful():
            world.harness_errors.append('driver died: %r' % (g.exception,))
        v = result['violations']
        code = result.get('code')
        t_reply = result.get('t_reply')
        accepted = result.get('accepted', list(scn['rcpts']))
        nontrivial = False
        state = None
        if code is not None and not v:
            success = str(code).startswith('2')
            if scn['queue'] == 'queue':
                nfail = [w for w in wlog if w['ok'] is False]
                running = [w for w in wlog if w['t1'] is None or
                           w['t1'] > t_reply]
                if len(wlog) >= 2:
                    world.probe('split>=2')
                if len(wlog) >= 3:
                    world.probe('split>=3')
                if 'forward' in scn['policies']:
                    world.probe('forward-policy')
                if scn.get('store_pool'):
                    world.probe('store-pool-bounded')
                for w in nfail:
                    world.probe('failure-first-write' if w['k'] == 0 else
                                'failure-last-write' if w['k'] == len(wlog) - 1
                                else 'failure-middle-write')
                    if w['what'] == 'qerr-reply':
                        world.probe('qerr-with-reply')
                    if w['what'] == 'exc':
                        world.probe('non-queueerror')
                if any(w['what'] == 'slow' for w in wlog):
                    world.probe('slow-write')
                nontrivial = len(wlog) >= 2 or bool(nfail)
                state = (scn['edge'], 'queue', len(wlog),
                         nfail[0]['k'] if nfail else -1,
                         nfail[0]['what'] if nfail else '')
                if success:
                    if running:
                        v.append({'clause': 'C02/ack-before-write',
                                  'detail': {'edge': scn['edge']},
                                  'msg': 'success reply %s received at t=%.3f '
                                         'while storage write #%d was still in '
                                         'progress' % (code, t_reply -
                                                       world.loop._start,
                                                       running[0]['k'])})
                    elif nfail:
                        w = nfail[0]
                        v.append({'clause': 'C02/ack-despite-failure',
                                  'detail': {'edge': scn['edge'],
                                             'failed': 'first' if w['k'] == 0
                                             else 'later', 'how': w['what']},
                                  'msg': 'success reply %s although storage '
                                         'write #%d of %d (recipients %r) '
                                         'failed (%s)' % (
                                             code, w['k'], len(wlog),
                                             w['rcpts'], w['what'])})
                    elif 'forward' not in scn['policies']:
                        got = sorted(r for w in wlog if w['ok']
                                     for r in w['rcpts'])
                        if got != sorted(accepted):
                            v.append({'clause': 'C02/recipient-uncovered',
                                      'detail': {'edge': scn['edge']},
                                      'msg': 'success reply %s but the '
                                             'envelopes written cover %r, '
                                             'accepted recipients are %r' % (
                                                 code, got, sorted(accepted))})
                    if success and not wlog:
                        v.append({'clause': 'C02/ack-before-write',
                                  'detail': {'edge': scn['edge'],
                                             'what': 'nothing-written'},
                                  'msg': 'success reply without any write'})
                else:
                    if not nfail and not str(code).startswith(('4', '5')):
                        pass
            else:
                obs = truth['obs']
                atts = obs['attempts']
                spec = scn['relay_spec']
                if spec['t'] in ('map', 'seq'):
                    world.probe('proxy-partial-result')
                if spec['t'] in ('temp', 'perm'):
                    world.probe('proxy-whole-failure')
                nontrivial = spec['t'] not in ('none', 'reply')
                state = (scn['edge'], 'proxy', spec['t'])
                if success:
                    if not atts or atts[0]['t1'] is None or \
                            atts[0]['t1'] > t_reply:
                        v.append({'clause': 'C02/ack-before-write',
                                  'detail': {'edge': scn['edge'],
                                             'queue': 'proxy'},
                                  'msg': 'success reply before the relay '
                                         'attempt had finished'})
                    else:
                        tr = atts[0]['truth'] or {}
                        notok = [r for r in accepted if tr.get(r) != 'ok']
                        if notok:
                            v.append({'clause': 'C02/proxy-partial',
                                      'detail': {'edge': scn['edge'],
                                                 'shape': spec['t']},
                                      'msg': 'success reply %s from the '
                                             'proxying queue although the '
                                             'relay did not deliver to %r '
                                             '(results %r)' % (code, notok,
                                                               tr)})
        return {
            'violations': v[:3], 'digest': world.digest(),
            'nontrivial': nontrivial, 'probes': dict(world.probes),
            'faults': dict(world.faults),
            'states': [hash(state)] if state else [],
            'steps': world.loop.steps, 'sim_s': world.loop.elapsed(),
            'inconclusive': world.loop.cap_hit,
            'harness_errors': list(world.harness_errors),
            'summary': {'edge': scn['edge'], 'queue': scn['queue'],
                        'policies': scn.get('policies'),
                        'plan': scn.get('write_plan'),
                        'relay': scn.get('relay_spec'), 'reply': code,
                        'writes': [(w['k'], w['what'], w['ok'], w['rcpts'])
                                   for w in wlog]},
        }
    finally:
        world.close()


def _smtp(world, scn, q, result):
    from slimta.edge.smtp import SmtpEdge
    a, b = net.socketpair(world, 'c02', a_opts={'latency': net.LAT_SMALL},
                          b_opts={'latency': net.LAT_ZERO})
    edge = SmtpEdge(None, q, hostname='edge.sim',
                    max_size=scn.get('max_size'))
    srv = gevent.spawn(edge.handle, b, a.getpeername())
    cl = LineClient(world, a)
    r = cl.read_reply()

    def cmd(line):
        a.sendall(line + b'\r\n')
        return cl.read_reply(timeout=400.0)
    cmd(b'EHLO client.example')
    cmd(b'MAIL FROM:<%s>' % scn['sender'].encode())
    accepted = []
    for rc in scn['rcpts']:
        r = cmd(b'RCPT TO:<%s>' % rc.encode())
        if r and r != 'timeout' and r[0] == '250':
            accepted.append(rc)
    result['accepted'] = accepted
    r = cmd(b'DATA')
    if not r or r == 'timeout' or r[0] != '354':
        result['violations'].append({'clause': 'C02/harness', 'detail': {},
                                     'msg': 'DATA refused %r' % (r,)})
        return
    a.sendall(bytes.fromhex(scn['body']) + b'.\r\n')
    r = cl.read_reply(timeout=400.0)
    if r is None or r == 'timeout':
        # connection dropped / no reply: not a success acknowledgement
        result['code'] = 'closed' if r is None else None
        result['t_reply'] = world.loop._now
        if r == 'timeout':
            result['violations'].append({
                'clause': 'C02/no-reply', 'detail': {'edge': 'smtp'},
                'msg': 'no reply to the end of data'})
        return
    result['code'] = r[0]
    result['t_reply'] = world.loop._now
    if scn.get('max_size'):
        world.probe('size-limit-refused' if r[0] == '552' else
                    'size-limit-passed')
    try:
        a.sendall(b'QUIT\r\n')
        cl.read_reply(timeout=5.0)
        a.close()
    except Exception:
        pass
    world.wait(srv, 50.0)


def _wsgi(world, scn, q, result):
    from slimta.edge.wsgi import WsgiEdge
    edge = WsgiEdge(q, hostname='edge.sim')
    body = bytes.fromhex(scn['body'])

    def b64(s):
        return base64.b64encode(s.encode('utf-8')).decode('ascii')
    environ = {
        'REQUEST_METHOD': 'POST', 'PATH_INFO': '/', 'SERVER_NAME': 'edge.sim',
        'SERVER_PORT': '80', 'SERVER_PROTOCOL': 'HTTP/1.1',
        'CONTENT_TYPE': 'message/rfc822', 'CONTENT_LENGTH': str(len(body)),
        'REMOTE_ADDR': '192.0.2.9', 'wsgi.input': io.BytesIO(body),
        'wsgi.url_scheme': 'http', 'wsgi.errors': io.StringIO(),
        'HTTP_X_ENVELOPE_SENDER': b64(scn['sender']),
        'HTTP_X_ENVELOPE_RECIPIENT': ', '.join(b64(r) for r in scn['rcpts']),
        'HTTP_X_EHLO': 'client.example',
    }
    box = {}

    def start_response(status, headers, exc_info=None):
        box['status'] = status
        box['t'] = world.loop._now
    try:
        out = edge(environ, start_response)
        list(out or ())
    except BaseException as e:
        if isinstance(e, gevent.GreenletExit):
            raise
        # an exception escaping the application: a WSGI server answers 500
        world.log('WSGI', 'app-raised', type(e).__name__)
        box['status'] = '500 Internal Server Error'
        box['t'] = world.loop._now
    st = box.get('status')
    result['code'] = st.split(' ')[0] if st else None
    result['t_reply'] = box.get('t', world.loop._now)
    result['accepted'] = list(scn['rcpts'])


def shrink_candidates(scn, clause):
    if len(scn['rcpts']) > 1:
        for i in range(len(scn['rcpts'])):
            c = dict(scn)
            c['rcpts'] = scn['rcpts'][:i] + scn['rcpts'][i + 1:]
            if c.get('relay_spec') and c['relay_spec'].get('r'):
                c['relay_spec'] = dict(c['relay_spec'])
                c['relay_spec']['r'] = {k: v for k, v in
                                        c['relay_spec']['r'].items()
                                        if k in c['rcpts']}
            yield c
    pol = scn.get('policies') or []
    for i in range(len(pol)):
        c = dict(scn)
        c['policies'] = pol[:i] + pol[i + 1:]
        yield c
    plan = scn.get('write_plan') or []
    for i, w in enumerate(plan):
        if w != 'ok':
            c = dict(scn)
            c['write_plan'] = plan[:i] + ['ok'] + plan[i + 1:]
            yield c
    if scn.get('competitor'):
        c = dict(scn)
        del c['competitor']
        yield c
    if scn.get('store_pool'):
        c = dict(scn)
        c['store_pool'] = None
        yield c
    if scn.get('write_lat'):
        c = dict(scn)
        c['write_lat'] = 0.0
        yield c
