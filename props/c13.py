"""C13 - exactly one bounce per distinct failure reply, to the sender only,
naming exactly the failed recipients, quoting the reply, embedding the
original unchanged; no bounce for a null sender; bounces never loop; bounces
go through the configured bounce queue's enqueue."""
from __future__ import annotations

import random

from . import queue_common as qc
from harness import queue as hq
from .c03 import racing_fetch, hq_norm

ID = 'C13'
RULE = ('as C01 but biased to failure: whole-message and per-recipient '
        'permanent failures with equal and different replies, retry '
        'exhaustion with grouped transient replies, null-sender originals, '
        'bounces that themselves fail or exhaust retries, bounce factories '
        'returning None, headers-only bounces, separate bounce queue, 8-bit '
        'bodies, up to 8 recipients; non-trivial = at least one failure event '
        'that calls for a bounce; distinct = distinct event-log digest')
COMPONENTS = qc.COMPONENTS
BUDGET = {'quick': 20000, 'thorough': 300000}
PROBES = ['bounce', 'retry-exhaustion', 'grouped-replies', 'null-sender-failure',
          'failing-bounce', 'bounce-factory-none', 'separate-bounce-queue',
          'headers-only', 'backend:dict', 'backend:disk', 'backend:redis',
          'backend:cloud', 'backend:cloud+mq']
STATES_MEASURE = 'distinct (backend, per-message attempt-shape sequence)'
BIAS = {'L': [0, 0, 1, 1, 2], 'waits': (0, 1, 1, 5), 'max_rcpts': 8,
        'p_map': 0.6, 'verdicts': ['ok', 'temp', 'temp', 'perm', 'perm'],
        'whole': ['perm', 'perm', 'temp', 'temp', 'other', 'none'],
        'p_null_sender': 0.2, 'p_8bit': 0.5,
        'bounce_queues': ['self', 'separate'],
        'relay_lat': (0.0, 0.0, 0.001, 0.01)}


def generate(seed, tier='quick'):
    scn = qc.generate(seed, ID, BIAS)
    rng = random.Random(seed ^ 0x5bd1e995)
    if rng.random() < 0.2:
        scn['bounce_none'] = sorted(set(rng.randrange(4) for _ in range(2)))
    if rng.random() < 0.25:
        scn['bounce_headers_only'] = True
    # more (and failing) bounce deliveries
    scn['bounce_outcomes'] = [
        {'t': rng.choice(['none', 'perm', 'temp', 'temp', 'other']),
         'lat': rng.choice([0.0, 0.01])} for _ in range(rng.randint(0, 5))]
    if rng.random() < 0.2:
        # one storage call fails (QueueError) while an outcome is settled
        scn['store_faults'] = [[rng.choice(['remove', 'remove',
                                            'set_recipients_delivered',
                                            'increment_attempts',
                                            'set_timestamp']),
                                rng.randint(1, 3)]]
    return scn


def exhausted_after(scn, obs, a, att):
    """did the backoff policy stop granting retries after this attempt?  The
    attempt count is the one the storage returned to the queue."""
    if a['acc'] is None or att['end_seq'] is None:
        return False
    truth = att['truth'] or {}
    if 'temp' not in truth.values():
        return False
    id = a['acc']['id']
    for o in obs['store_ops']:
        if o['op'] == 'increment_attempts' and o['id'] is not None and \
                hq_norm(o['id']) == id and o['s0'] > att['end_seq'] and \
                o['ok']:
            return o['args'] - 1 >= len(scn['backoff'])
    return False


def expected_bounces(scn, obs, a):
    """list of (frozenset(rcpts), code, message) from ground truth"""
    out = []
    m = a['m']
    for att in a['attempts']:
        if att['t1'] is None:
            continue
        truth = att['truth'] or {}
        rep = att['replies'] or {}
        if att['shape'] == 'perm':
            code, msg = rep[att['rcpts'][0]]
            out.append((frozenset(att['rcpts']), code, msg))
        elif att['shape'] in ('map', 'seq'):
            groups = {}
            for r in att['rcpts']:
                if truth.get(r) == 'perm':
                    groups.setdefault(rep[r], []).append(r)
            for (code, msg), rs in groups.items():
                out.append((frozenset(rs), code, msg))
        if exhausted_after(scn, obs, a, att):
            groups = {}
            for r in att['rcpts']:
                if truth.get(r) == 'temp':
                    code, msg = rep.get(r, ('450', None))
                    if msg is None:
                        msg = ('4.0.0 Unhandled delivery error: scripted '
                               'unexpected relay exception')
                    groups.setdefault((code, msg), []).append(r)
            for (code, msg), rs in groups.items():
                out.append((frozenset(rs), code, msg + ' (Too many retries)'))
    return out


def judge(scn, obs, world):
    v = _judge(scn, obs, world)
    if scn.get('store_faults'):
        # a storage call failed: what the queue can still do for the
        # message is limited, but it must not bounce anybody twice nor
        # start a bounce loop
        world.probe('storage-fault-while-settling')
        # (a failing remove() comes after the bounces have been handed
        # over on every path: there a missing bounce still counts)
        only_remove = all(o == 'remove' for o, n in scn['store_faults'])
        v = [x for x in v if x['clause'] == 'C13/loop' or (
            x['clause'] == 'C13/count' and (
                x['detail'].get('kind') == 'recipient-bounced-twice' or
                (only_remove and x['detail'].get('kind') == 'missing')))]
        for x in v:
            x['detail']['storage_fault'] = True
    return v


def _judge(scn, obs, world):
    v = []
    be = scn['backend']
    if obs['status'] == 'cap' or obs['final'] is None:
        return v
    an = qc.analyse(scn, obs)
    sep = scn.get('bounce_queue') == 'separate'
    if sep:
        world.probe('separate-bounce-queue')
    if scn.get('bounce_headers_only'):
        world.probe('headers-only')
    none_returned = world.probes.get('bounce-factory-none', 0)
    parsed = []
    for b in obs['bounces']:
        k, named, code, msg = qc.parse_bounce(b)
        parsed.append((b, k, named, code, msg))
    any_shift = False
    for k, a in sorted(an.items()):
        m = a['m']
        if a['acc'] is None:
            continue
        shifted = qc.index_shift(scn, obs, a)
        any_shift = any_shift or shifted

        raced = False
        prev = None
        for att in a['attempts']:
            if prev is not None and racing_fetch(obs, a, prev, att):
                raced = True
            if att['t1'] is not None:
                prev = att

        def det(**kw):
            if shifted:
                return {'backend': 'persistent',
                        'history': 'multi-round-relative-index'}
            if raced:
                return {'race': 'first-attempt-completes-before-write-returns'}
            d = {'backend': be}
            d.update(kw)
            return d
        mine = [p for p in parsed if p[1] == k and p[0]['rcpts'] != ['']]
        exp = expected_bounces(scn, obs, a)
        if not m['sender']:
            if exp:
                world.probe('null-sender-failure')
            if mine:
                v.append({'clause': 'C13/null-sender-bounced', 'detail': det(),
                          'msg': 'message %d has an empty sender but %d '
                                 'bounce(s) were generated for it' % (
                                     k, len(mine))})
            continue
        if any(len(e[0]) > 1 for e in exp):
            world.probe('grouped-replies')
        if a['in_flight']:
            continue
        env = hq.make_envelope(m)
        hdr, body = env.flatten()
        obs_set = []
        for b, _, named, code, msg in mine:
            if b['sender'] != '' or b['rcpts'] != [m['sender']]:
                v.append({'clause': 'C13/addressing', 'detail': det(),
                          'msg': 'bounce for message %d has sender %r and '
                                 'recipients %r; expected sender "" and [%r]'
                                 % (k, b['sender'], b['rcpts'], m['sender'])})
                break
            want_role = 'bounce' if sep else 'main'
            if b['queue'] != want_role or not b['ids'] or any(
                    i in ('ERR', None) for i in b['ids']):
                v.append({'clause': 'C13/bypass', 'detail': det(),
                          'msg': 'bounce for message %d went through queue %r '
                                 'with ids %r; expected the %s queue' % (
                                     k, b['queue'], b['ids'], want_role)})
                break
            need = hdr if scn.get('bounce_headers_only') else hdr + body
            if need not in b['body']:
                v.append({'clause': 'C13/content',
                          'detail': det(headers_only=bool(
                              scn.get('bounce_headers_only'))),
                          'msg': 'bounce for message %d does not embed the '
                                 'original %s byte-identically' % (
                                     k, 'header block' if scn.get(
                                         'bounce_headers_only') else
                                     'header block and body')})
                break
            if scn.get('bounce_headers_only') and body and \
                    len(body) > 8 and body in b['body']:
                v.append({'clause': 'C13/content',
                          'detail': det(headers_only=True, what='body-included'),
                          'msg': 'headers-only bounce for message %d contains '
                                 'the body' % k})
                break
            obs_set.append((frozenset(named or ()), code, msg))
        else:
            # a recipient fails for good at most once: it is never named in
            # two bounces of the same message
            named_count = {}
            for o in obs_set:
                for r in o[0]:
                    named_count[r] = named_count.get(r, 0) + 1
            twice = sorted(r for r, n in named_count.items() if n > 1)
            if twice:
                v.append({'clause': 'C13/count',
                          'detail': det(kind='recipient-bounced-twice'),
                          'msg': 'message %d: recipient %s is named in %d '
                                 'bounces' % (k, twice[0],
                                              named_count[twice[0]])})
                continue
            # multiset comparison
            e2 = list(exp)
            extra = []
            for o in obs_set:
                if o in e2:
                    e2.remove(o)
                else:
                    extra.append(o)
            if extra:
                # classify: wrong recipients / wrong reply / duplicate
                o = extra[0]
                kind = 'unexpected'
                if o in exp:
                    kind = 'duplicate'
                elif any(o[0] == e[0] for e in exp):
                    kind = 'reply'
                elif any((o[1], o[2]) == (e[1], e[2]) for e in exp):
                    kind = 'recipients'
                clause = {'duplicate': 'C13/count', 'unexpected': 'C13/count',
                          'reply': 'C13/reply',
                          'recipients': 'C13/recipients'}[kind]
                v.append({'clause': clause, 'detail': det(kind=kind),
                          'msg': 'message %d: bounce naming %s with reply '
                                 '"%s %s" is not called for by the failure '
                                 'history; expected %r' % (
                                     k, sorted(o[0]), o[1], o[2],
                                     [(sorted(e[0]), e[1], e[2])
                                      for e in exp])})
            elif len(e2) > none_returned:
                e = e2[0]
                v.append({'clause': 'C13/count', 'detail': det(kind='missing'),
                          'msg': 'message %d: no bounce for recipients %s '
                                 'failing with "%s %s" (%d expected, %d seen, '
                                 '%d suppressed by the bounce factory)' % (
                                     k, sorted(e[0]), e[1], e[2], len(exp),
                                     len(obs_set), none_returned)})
    # loops: a bounce addressed to the null sender, or a bounce about a bounce
    for b, k, named, code, msg in parsed:
        if b['rcpts'] == [''] or b['rcpts'] == [None]:
            v.append({'clause': 'C13/loop', 'detail': {'backend': be},
                      'msg': 'a bounce was generated for a failed bounce '
                             '(addressed to the null sender)'})
            break
    if any(s.get('t') in ('perm', 'temp', 'other')
           for s in scn.get('bounce_outcomes') or ()) and obs['bounces']:
        world.probe('failing-bounce')
    return v


def execute(scn, debug=False):
    return qc.execute(scn, judge, debug=debug,
                      nontrivial_fn=lambda scn, obs, an: any(
                          expected_bounces(scn, obs, a) for a in an.values()))


def shrink_candidates(scn, clause):
    if scn.get('store_faults'):
        c = dict(scn)
        del c['store_faults']
        yield c
    for c in qc.shrink_candidates(scn, clause):
        yield c
    for key in ('bounce_none', 'bounce_headers_only'):
        if scn.get(key):
            c = dict(scn)
            c.pop(key)
            yield c
