"""C10 - the pipelining client pairs every reply with the command that caused
it, never reads past the last reply it is owed; LMTP per-recipient data
replies are paired with exactly the accepted recipients."""
from __future__ import annotations

import random

import gevent

from sim.world import World
from sim import net

ID = 'C10'
RULE = ('seeded legal method sequences on the real Client / LmtpClient '
        '(banner, EHLO/LHLO, MAIL, RCPT x n, DATA, send_data / '
        'send_empty_data, RSET, custom, QUIT; 1-3 transactions) against a '
        'scripted server that answers the i-th command with a seeded reply '
        '(any code class, 1-3 lines), PIPELINING advertised or not, seeded '
        'segmentation of the reply stream, optional unsolicited reply behind '
        'the last owed one; non-trivial = PIPELINING on with >= 3 replies '
        'drained by one flush, or LMTP with a rejected recipient; distinct = '
        'distinct event-log digest')
COMPONENTS = {
    'real': ['slimta.smtp.client.Client', 'slimta.smtp.client.LmtpClient',
             'slimta.smtp.io.IO', 'slimta.smtp.reply.Reply',
             'slimta.smtp.datasender.DataSender',
             'slimta.smtp.extensions.Extensions'],
    'stub': ['SimLoop', 'SimSocket', 'scripted server (one scripted reply per '
             'command / per end-of-data)'],
}
BUDGET = {'quick': 30000, 'thorough': 800000}
PROBES = ['pipelining', 'no-pipelining', 'lmtp', 'lmtp-rejected-rcpt',
          'multi-line-reply', 'error-reply-mid-pipeline', 'unsolicited-reply',
          'replies-in-one-burst', 'second-transaction', 'empty-data',
          'bystander-client', 'auth-mid-session']
STATES_MEASURE = 'distinct (lmtp, pipelining, sequence of (method, reply class))'
STEP_CAP = 200000


def gen_reply(rng, ok_code, p_err=0.25):
    if rng.random() < p_err:
        code = rng.choice(['450', '451', '550', '552', '421', '500', '503'])
    else:
        code = ok_code
    n = rng.choice([1, 1, 1, 2, 3])
    lines = ['%s line%d %04x' % (code, i, rng.randrange(65536))
             for i in range(n)]
    if rng.random() < 0.3:
        lines[0] = '%s.1.%d %s' % (code[0] if code[0] in '245' else '2',
                                   rng.randrange(10), lines[0])
    return [code, lines]


def generate(seed, tier='quick'):
    rng = random.Random(seed)
    lmtp = rng.random() < 0.35
    pipelining = rng.random() < 0.65
    steps = []
    ntx = rng.randint(1, 3)
    for t in range(ntx):
        if rng.random() < 0.2:
            steps.append({'m': 'custom', 'verb': 'NOOP',
                          'reply': gen_reply(rng, '250')})
        steps.append({'m': 'mail', 'addr': 's%d@a.example' % t,
                      'reply': gen_reply(rng, '250', 0.15)})
        nr = rng.randint(1, 4)
        for r in range(nr):
            # any 2xx accepts a recipient (251 "will forward", 252)
            # (now and then the same address again: a recipient list may
            # name an address twice, and each RCPT is a command of its own)
            steps.append({'m': 'rcpt', 'addr': 'r%d.%d@b.example' % (
                t, r if r == 0 or rng.random() > 0.2 else r - 1),
                          'reply': gen_reply(rng, rng.choice(
                              ['250', '250', '251', '252']), 0.3)})
        steps.append({'m': 'data', 'reply': gen_reply(rng, '354', 0.2)})
        body = rng.choice(['', 'Subject: x\r\n\r\nbody\r\n',
                           'a\r\n.\r\n..b\r\nno newline'])
        eod = [gen_reply(rng, rng.choice(['250', '250', '251']), 0.3)
               for _ in range(nr if lmtp else 1)]
        steps.append({'m': 'send', 'body': body, 'eod': eod})
        if rng.random() < 0.4:
            steps.append({'m': 'rset', 'reply': gen_reply(rng, '250', 0.1)})
        if rng.random() < 0.15:
            # authenticating between transactions: the end-of-data reply of
            # the one before may still be owed
            steps.append({'m': 'auth', 'reply': gen_reply(rng, '235', 0.2)})
    if rng.random() < 0.7:
        steps.append({'m': 'quit', 'reply': gen_reply(rng, '221', 0.1)})
    return {'property': ID, 'harness': 'client', 'seed': seed,
            'sched_seed': rng.getrandbits(48), 'lmtp': lmtp,
            'pipelining': pipelining,
            'banner': gen_reply(rng, '220', 0.05),
            'hello': gen_reply(rng, '250', 0.0),
            'steps': steps,
            'unsolicited': rng.random() < 0.25,
            'segmenter': rng.choice(['whole', 'line', 'byte', 'few', 'cuts']),
            'burst': rng.random() < 0.4, 'lat': rng.choice([0, 1]),
            'bystander': rng.random() < 0.25}


def wire(rep, extra=None):
    code, lines = rep
    lines = list(lines) + list(extra or [])
    out = b''
    for i, l in enumerate(lines):
        out += ('%s%s%s\r\n' % (code, '-' if i < len(lines) - 1 else ' ',
                                l)).encode()
    return out


_ESC = __import__('re').compile(r'^[245]\.\d{1,3}\.\d{1,3}[ \t]+')


def strip_esc(msg):
    return _ESC.sub('', msg or '')


def expected_message(rep, strip_ext=False):
    """reply text with any enhanced status code removed: whether the client
    shows, adds or re-renders the status code depends on the command (banner
    and EHLO suppress it) and is C17's subject; pairing is judged on the
    text, which carries a unique token per scripted reply"""
    code, lines = rep
    return strip_esc('\r\n'.join(lines))


def _bystander(world, cls, lmtp):
    """another client object with its own socket and scripted server, used
    at the same time: client objects share nothing"""
    a, b = net.socketpair(world, 'c10by', a_opts={'latency': net.LAT_SMALL},
                          b_opts={'latency': net.LAT_SMALL,
                                  'segmenter': 'line'})
    script = [(b'', b'220 by banner\r\n'),
              (b'HLO', b'250-by hello\r\n250 PIPELINING\r\n'),
              (b'MAIL', b'250 2.1.0 by mail\r\n'),
              (b'RCPT', b'250 2.1.5 by rcpt one\r\n'),
              (b'RCPT', b'550 5.1.1 by rcpt two\r\n'),
              (b'DATA', b'354 by go ahead\r\n'),
              (b'.', b'250 2.6.0 by accepted\r\n'),
              (b'QUIT', b'221 2.0.0 by bye\r\n')]
    out = {}

    def server():
        buf = b''
        b.sendall(script[0][1])
        for want, reply in script[1:]:
            while True:
                while b'\n' not in buf:
                    d = b.recv(4096)
                    if not d:
                        return
                    buf += d
                l, buf = buf.split(b'\n', 1)
                l = l.rstrip(b'\r')
                if want == b'.':
                    if l == b'.':
                        break
                    continue
                if want in l.upper():
                    break
            b.sendall(reply)

    def client():
        try:
            c = cls(a, ('by', 0))
            got = [c.get_banner()]
            got.append(c.lhlo('by.example') if lmtp else c.ehlo('by.example'))
            got.append(c.mailfrom('by@s.example'))
            got.append(c.rcptto('one@by.example'))
            got.append(c.rcptto('two@by.example'))
            got.append(c.data())
            r = c.send_data(b'Subject: by\r\n\r\nby body\r\n')
            got.append(r[0][1] if lmtp else r)
            got.append(c.quit())
            c._flush_pipeline()
            codes = [(x.code, (x.message or '').split('by ')[-1][:12])
                     for x in got]
            want = [('220', 'banner'), ('250', 'hello'), ('250', 'mail'),
                    ('250', 'rcpt one'), ('550', 'rcpt two'),
                    ('354', 'go ahead'), ('250', 'accepted'), ('221', 'bye')]
            if [x[0] for x in codes] != [x[0] for x in want] or any(
                    w[1] not in (g.message or '') for g, w in
                    zip(got[2:], want[2:])):
                out['msg'] = 'replies %r, its server sent %r' % (
                    [(g.code, g.message) for g in got], want)
            out['done'] = True
        except Exception as e:
            out['msg'] = 'raised %s: %s' % (type(e).__name__, e)
    gevent.spawn(server)
    out['g'] = gevent.spawn(client)
    return out


def execute(scn, debug=False):
    from slimta.smtp.client import Client, LmtpClient
    import slimta.smtp.client as smc
    smc.wait_read = net.sim_wait_read
    world = World(scn['sched_seed'], step_cap=STEP_CAP, debug=debug)
    try:
        lmtp = scn['lmtp']
        a, b = net.socketpair(
            world, 'c10', a_opts={'latency': net.LAT_ZERO},
            b_opts={'segmenter': scn['segmenter'],
                    'seg_param': 0.3 if scn['segmenter'] == 'cuts' else None,
                    'latency': net.LAT_SMALL if scn['lat'] else net.LAT_ZERO})
        extra = b'421 4.4.2 unsolicited goodbye\r\n'
        srv_state = {'cmds': 0}
        # flat list of scripted replies in command order
        owed = []

        def server():
            buf = [b'']

            def line():
                while b'\n' not in buf[0]:
                    d = b.recv(4096)
                    if not d:
                        return None
                    buf[0] += d
                l, buf[0] = buf[0].split(b'\n', 1)
                return l.rstrip(b'\r')
            pending = [b'']

            def say(data):
                if scn['burst']:
                    pending[0] += data
                else:
                    b.sendall(data)

            def flush():
                if pending[0]:
                    b.sendall(pending[0])
                    pending[0] = b''
            b.sendall(wire(scn['banner']))
            l = line()
            if l is None:
                return
            ext = ['8BITMIME', 'AUTH PLAIN'] + (
                ['PIPELINING'] if scn['pipelining'] else [])
            b.sendall(wire(scn['hello'], ext))
            accepted = 0
            for si, st in enumerate(scn['steps']):
                m = st['m']
                if m == 'send':
                    continue
                l = line()
                if l is None:
                    flush()
                    return
                srv_state['cmds'] += 1
                say(wire(st['reply']))
                if m in ('data', 'custom', 'auth', 'rset', 'quit') or \
                        not scn['pipelining']:
                    flush()
                if m == 'mail':
                    accepted = 0
                if m == 'rcpt' and st['reply'][0][0] == '2':
                    accepted += 1
                if m == 'rset':
                    accepted = 0
                if m == 'data' and st['reply'][0] == '354':
                    # read content
                    # (by position: two steps may well be equal)
                    nxt = scn['steps'][si + 1]
                    while True:
                        l = line()
                        if l is None:
                            return
                        if l == b'.':
                            break
                    n = accepted if lmtp else 1
                    for i in range(n):
                        say(wire(nxt['eod'][i]))
                    # (a server answers the end of data at once unless it is
                    # in 'burst' mode and the client is about to pipeline the
                    # next transaction; a client that stops to authenticate
                    # waits for this reply first)
                    k2 = si + 2
                    after = scn['steps'][k2]['m'] if k2 < len(scn['steps']) \
                        else None
                    if not scn['pipelining'] or after == 'auth':
                        flush()
                    accepted = 0
            flush()
            if scn['unsolicited']:
                b.sendall(extra)
            srv_state['finished'] = True
            # keep the connection open until the client closes
            while line() is not None:
                pass

        sg = gevent.spawn(server)
        out = {'returned': [], 'exc': None}

        def client():
            cls = LmtpClient if lmtp else Client
            c = cls(a, ('10.0.0.1', 25))
            out['client'] = c
            ret = out['returned']
            try:
                ret.append(('banner', c.get_banner(), scn['banner']))
                hello = c.lhlo('me.example') if lmtp else c.ehlo('me.example')
                ret.append(('hello', hello, None))
                skip_send = False
                rcpts = []
                for st in scn['steps']:
                    m = st['m']
                    if m == 'mail':
                        ret.append(('mail', c.mailfrom(st['addr']),
                                    st['reply']))
                        rcpts = []
                    elif m == 'rcpt':
                        ret.append(('rcpt', c.rcptto(st['addr']), st['reply']))
                        rcpts.append((st['addr'], st['reply']))
                    elif m == 'data':
                        d = c.data()
                        ret.append(('data', d, st['reply']))
                        skip_send = d.code != '354'
                    elif m == 'send':
                        if skip_send:
                            if lmtp:
                                c.rcpttos = []
                            continue
                        if st['body']:
                            r = c.send_data(st['body'].encode())
                        else:
                            world.probe('empty-data')
                            r = c.send_empty_data()
                        if lmtp:
                            acc = [(ad, rp) for ad, rp in rcpts
                                   if rp[0][0] == '2']
                            ret.append(('lmtp-send', r, (acc, st['eod'])))
                        else:
                            ret.append(('send', r, st['eod'][0]))
                    elif m == 'rset':
                        ret.append(('rset', c.rset(), st['reply']))
                    elif m == 'custom':
                        ret.append(('custom', c.custom_command(
                            st['verb'].encode()), st['reply']))
                    elif m == 'auth':
                        world.probe('auth-mid-session')
                        ret.append(('custom', c.auth('user', 'secret'),
                                    st['reply']))
                    elif m == 'quit':
                        ret.append(('quit', c.quit(), st['reply']))
                # drain anything still owed
                c._flush_pipeline()
                out['done'] = True
            except Exception as e:
                import traceback
                out['exc'] = '%s: %s' % (type(e).__name__, e)
                out['tb'] = traceback.format_exc()
        by = _bystander(world, LmtpClient if lmtp else Client, lmtp) \
            if scn.get('bystander') else None
        cg = gevent.spawn(client)
        ok = world.wait(cg, 300.0)
        # let the scripted server finish its script (and its unsolicited
        # reply reach the client's socket) before looking at what is unread
        for _ in range(200):
            if srv_state.get('finished') or sg.dead:
                break
            gevent.sleep(0.05)
        gevent.sleep(0.1)
        violations = []

        def bad(clause, msg, **det):
            det.setdefault('lmtp', lmtp)
            det.setdefault('pipelining', scn['pipelining'])
            violations.append({'clause': clause, 'detail': det, 'msg': msg})
        if by is not None:
            world.probe('bystander-client')
            world.wait(by['g'], 300.0)
            if by.get('msg') or not by.get('done'):
                bad('C10/cross-client', 'a second client object talking to its '
                    'own server at the same time: %s' % (
                        by.get('msg') or 'did not finish'))
        if not ok:
            bad('C10/hang', 'client method did not return: %s' %
                world.blocked_report())
        elif out['exc']:
            bad('C10/exception', 'client raised %s' % out['exc'],
                exc=out['exc'].split(':')[0])
        else:
            for name, got, exp in out['returned']:
                if violations:
                    break
                if name == 'hello':
                    continue
                if name == 'lmtp-send':
                    acc, eod = exp
                    if len(got) != len(acc):
                        bad('C10/lmtp-pairing', 'send_data returned %d '
                            'entries, the server accepted %d recipients (%r)'
                            % (len(got), len(acc), [x[0] for x in acc]))
                        break
                    for i, ((addr, rp), (eaddr, _)) in enumerate(zip(got, acc)):
                        e = eod[i]
                        if addr != eaddr or rp.code != e[0] or \
                                strip_esc(rp.message) != expected_message(e):
                            bad('C10/lmtp-pairing', 'entry %d is (%s, %s %r); '
                                'the server sent %s %r for %s' % (
                                    i, addr, rp.code, rp.message, e[0],
                                    e[1], eaddr))
                            break
                    continue
                if got.code is None:
                    bad('C10/unfilled', 'the reply object returned by %s() '
                        'was never populated' % name, method=name)
                    break
                if got.code != exp[0] or strip_esc(got.message) != \
                        expected_message(exp):
                    bad('C10/mispaired', 'the reply returned for %s holds %s '
                        '%r; the server answered that command with %s %r' % (
                            name, got.code, got.message, exp[0],
                            expected_message(exp)), method=name)
                    break
            c = out.get('client')
            if c is not None and not violations:
                rest = c.io.recv_buffer + a.unread()
                want = extra if scn['unsolicited'] else b''
                # replies the driver never asked for (skipped sends) stay too
                if not rest.endswith(want) or (want and want not in rest):
                    bad('C10/read-past', 'after the last owed reply %r is '
                        'left unread; the server had also sent %r' % (
                            rest[-60:], want))
        seqsig = []
        for name, got, exp in out['returned']:
            code = getattr(got, 'code', None)
            seqsig.append((name, (code or '?')[0] if isinstance(code, str)
                           else 'L'))
            if name not in ('hello', 'lmtp-send') and exp and len(exp[1]) > 1:
                world.probe('multi-line-reply')
            if name in ('mail', 'rcpt') and exp and exp[0][0] in '45':
                world.probe('error-reply-mid-pipeline')
            if name == 'lmtp-send' and len(exp[0]) < len(
                    [s for s in scn['steps'] if s['m'] == 'rcpt']):
                world.probe('lmtp-rejected-rcpt')
        world.probe('pipelining' if scn['pipelining'] else 'no-pipelining')
        if lmtp:
            world.probe('lmtp')
        if scn['unsolicited']:
            world.probe('unsolicited-reply')
        if scn['burst']:
            world.probe('replies-in-one-burst')
        if sum(1 for s in scn['steps'] if s['m'] == 'mail') > 1:
            world.probe('second-transaction')
        try:
            a.close()
        except Exception:
            pass
        world.wait(sg, 20.0)
        return {
            'violations': violations[:2], 'digest': world.digest(),
            'nontrivial': scn['pipelining'] or lmtp,
            'probes': dict(world.probes), 'faults': dict(world.faults),
            'states': [hash((lmtp, scn['pipelining'], tuple(seqsig)))],
            'steps': world.loop.steps, 'sim_s': world.loop.elapsed(),
            'inconclusive': world.loop.cap_hit,
            'harness_errors': list(world.harness_errors),
            'summary': {'lmtp': lmtp, 'pipelining': scn['pipelining'],
                        'methods': [s['m'] for s in scn['steps']],
                        'codes': [(n, getattr(g, 'code', None))
                                  for n, g, e in out['returned']][:20]},
        }
    finally:
        world.close()


def shrink_candidates(scn, clause):
    if scn['segmenter'] != 'whole':
        c = dict(scn)
        c['segmenter'] = 'whole'
        yield c
    for k in ('burst', 'unsolicited', 'lat'):
        if scn.get(k):
            c = dict(scn)
            c[k] = False if k != 'lat' else 0
            yield c
    # drop whole transactions (from mail to before next mail)
    steps = scn['steps']
    idx = [i for i, s in enumerate(steps) if s['m'] == 'mail']
    if len(idx) > 1:
        for j, i in enumerate(idx):
            end = idx[j + 1] if j + 1 < len(idx) else len(steps)
            c = dict(scn)
            c['steps'] = steps[:i] + steps[end:]
            yield c
    for i, s in enumerate(steps):
        if s['m'] in ('custom', 'rset', 'quit'):
            c = dict(scn)
            c['steps'] = steps[:i] + steps[i + 1:]
            yield c
