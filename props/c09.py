"""C09 - server behaviour independent of segmentation / pipelining.

Metamorphic: one client byte stream, k executions differing only in how the
simulated network cuts and delays it; server output and callback trace must be
identical.  Plus marker oracle for content-executed / command-swallowed on
reference-well-formed sessions."""
from __future__ import annotations

import random

import gevent

from sim.world import World, H
from sim import net
from harness import session as hs

ID = 'C09'
RULE = ('seeded session byte streams (1-4 transactions; empty, dotted, '
        'command-looking and over-limit bodies; trailing pipelined commands) '
        'each executed under 3-5 seeded segmenters/latency classes; '
        'non-trivial = stream contains at least one DATA body and >= 2 '
        'variants produced different segment traces; distinct = distinct '
        'event-log digest')
COMPONENTS = {
    'real': ['slimta.edge.smtp.SmtpEdge.handle', 'slimta.edge.smtp.SmtpSession',
             'slimta.smtp.server.Server', 'slimta.smtp.io.IO',
             'slimta.smtp.datareader.DataReader', 'slimta.smtp.reply.Reply',
             'slimta.envelope.Envelope', 'slimta.util.ptrlookup.PtrLookup',
             'gevent primitives'],
    'stub': ['SimLoop (event loop)', 'SimSocket (TCP)', 'capturing queue',
             'PTR resolver shim', 'scripted byte-level client'],
}
BUDGET = {'quick': 14000, 'thorough': 1000000}
STEP_CAP = 300000


# ----------------------------------------------------------------- generator
def _body(rng, tok, kind):
    """returns (wire_bytes_including_terminator, logical_body, in_body_tokens)"""
    toks = []
    lines = []
    if kind == 'empty':
        return b'.\r\n', b'', toks
    n = rng.randint(1, 5)
    for _ in range(n):
        c = rng.random()
        if c < 0.25:
            t = tok()
            toks.append(t)
            lines.append(rng.choice([
                b'XMARK ' + t, b'MAIL FROM:<' + t + b'@x>',
                b'RCPT TO:<' + t + b'@x>', b'QUIT', b'RSET',
                b'DATA', b'EHLO ' + t]))
        elif c < 0.45:
            lines.append(rng.choice([b'.', b'..', b'. ', b'.x', b'.\t',
                                     b'...']))
        elif c < 0.55:
            lines.append(b'')
        elif c < 0.65:
            lines.append(b'Subject: s' + bytes([rng.randint(97, 122)]) * 3)
        else:
            lines.append(bytes(rng.choice(b'abc .\xe9') for _ in
                               range(rng.randint(0, 12))))
    if kind == 'headers':
        lines = [b'From: a@b', b'To: c@d', b''] + lines
    logical = b''.join(l + b'\r\n' for l in lines)
    wire = b''.join((b'.' + l if l[:1] == b'.' else l) + b'\r\n'
                    for l in lines) + b'.\r\n'
    return wire, logical, toks


def generate(seed, tier='quick'):
    rng = random.Random(seed)
    cnt = [0]

    def tok():
        cnt[0] += 1
        return b'tk%dq' % cnt[0]

    cfg = {'verdicts': {}, 'max_size': None, 'auth': False}
    wellformed = True
    flavour = rng.random()
    if flavour < 0.25:
        cfg['max_size'] = rng.choice([20, 40, 64, 100])
    items = []      # (kind, bytes)
    in_body, after_body = [], []
    have_body = False
    items.append(b'EHLO ' + rng.choice([b'c.example', b'x']) + b'\r\n'
                 if rng.random() < 0.85 else b'HELO c.example\r\n')
    ntx = rng.randint(1, 4)
    adversarial = rng.random() < 0.3
    if adversarial:
        wellformed = False
        if rng.random() < 0.5:
            k = rng.choice(['mail', 'rcpt', 'data', 'have_data'])
            cfg['verdicts'][k] = [rng.choice([None, '450', '550'])
                                  for _ in range(4)]
    oversize = False
    for t in range(ntx):
        pre = rng.random()
        if pre < 0.15:
            items.append(b'NOOP\r\n')
        elif pre < 0.25:
            items.append(b'RSET\r\n')
        elif pre < 0.35:
            items.append(b'XMARK ' + tok() + b'\r\n')
        items.append(b'MAIL FROM:<s%d@x.example>\r\n' % t)
        nr = rng.randint(1, 3)
        if adversarial and rng.random() < 0.2:
            nr = 0
        for r in range(nr):
            items.append(b'RCPT TO:<r%d.%d@y.example>\r\n' % (t, r))
        items.append(b'DATA\r\n')
        kind = rng.choice(['empty', 'plain', 'plain', 'headers', 'plain'])
        wire, logical, toks = _body(rng, tok, kind)
        if cfg['max_size'] and len(wire) > cfg['max_size']:
            oversize = True
        items.append(wire)
        in_body.extend(toks)
        have_body = True
        # trailing pipelined commands right behind the end-of-data
        for _ in range(rng.randint(0, 2)):
            tk = tok()
            after_body.append(tk)
            items.append(b'XMARK ' + tk + b'\r\n')
        if adversarial and rng.random() < 0.3:
            # adversarial extras: stray dots / bare LF lines / garbage
            items.append(rng.choice([b'.\r\n', b'.\n', b'\r\n', b'garbage\r\n',
                                     b'.\r\nXMARK ' + tok() + b'\r\n.\r\n']))
    if rng.random() < 0.8:
        items.append(b'QUIT\r\n')
    stream = b''.join(items)
    # variants
    nvar = rng.randint(3, 5)
    variants = [['whole', None, 0]]
    pool = [['byte', None], ['line', None], ['crlf', None],
            ['cuts', 0.1], ['cuts', 0.4], ['few', None],
            ['chunk', rng.choice([2, 3, 5, 7, 11, 64])]]
    rng.shuffle(pool)
    for v in pool[:nvar - 1]:
        variants.append(v + [rng.choice([0, 1, 1])])
    return {
        'property': ID, 'harness': 'session', 'seed': seed,
        'sched_seed': rng.getrandbits(48),
        'cfg': cfg, 'stream': stream.hex(), 'variants': variants,
        'wellformed': wellformed and not cfg['verdicts'],
        'in_body': [t.decode() for t in in_body],
        'after_body': [t.decode() for t in after_body],
        'have_body': have_body, 'oversize': oversize,
        'bystander': rng.random() < 0.25,
    }


# ------------------------------------------------------------------ executor
def _run_variant(world, scn, idx, variant):
    mode, param, latcls = variant
    stream = bytes.fromhex(scn['stream'])
    lat = net.LAT_ZERO if latcls == 0 else net.LAT_SMALL
    a, b = net.socketpair(
        world, 'v%d' % idx,
        a_opts={'segmenter': mode, 'seg_param': param, 'latency': lat},
        b_opts={'segmenter': 'whole', 'latency': net.LAT_ZERO})
    trace = hs.Trace(world, 'v%d' % idx)
    srv = hs.start_server(world, trace, scn['cfg'], b, a.getpeername())
    by = None
    if scn.get('bystander') and not scn['cfg'].get('tls_immediately'):
        by = hs.start_bystander(world, trace, pace_key='by%d' % idx)
        world.probe('bystander-session')
    out = bytearray()
    rd = gevent.spawn(hs.read_all, a, out)

    def writer():
        a.sendall(stream)
        a.shutdown(2)
    wr = gevent.spawn(writer)
    ok = world.wait(srv, 600.0)
    world.wait(rd, 60.0)
    if not a.closed:
        a.close()
    return {'finished': bool(ok), 'out': bytes(out), 'calls': trace.calls,
            'segs': a.tx.writes,
            'bystander': hs.bystander_verdict(world, trace, by, scn['cfg'])
            if by is not None and ok else None}


def execute(scn, debug=False):
    hs.install_seams()
    world = World(scn['sched_seed'], step_cap=STEP_CAP, debug=debug)
    violations = []
    res = []
    try:
        hs.PTR.latency = 0.0
        hs.PTR.answer = None
        for i, v in enumerate(scn['variants']):
            res.append(_run_variant(world, scn, i, v))
        inconclusive = world.loop.cap_hit
        base = res[0]
        for i, r in enumerate(res):
            if not r['finished']:
                violations.append({
                    'clause': 'C09/session-hung',
                    'detail': {'variant': scn['variants'][i][0]},
                    'msg': 'server session did not end after client EOF; '
                           'blocked at %s' % world.blocked_report()})
        for i, r in enumerate(res):
            if r.get('bystander') and not violations:
                violations.append({
                    'clause': 'C09/cross-session', 'detail': {},
                    'msg': r['bystander'] + ' (variant %s)' % (
                        scn['variants'][i][:2],)})
        if not violations:
            for i, r in enumerate(res[1:], 1):
                if r['out'] != base['out'] or r['calls'] != base['calls']:
                    what = 'replies' if r['out'] != base['out'] else 'callbacks'
                    d = _first_diff(base, r)
                    violations.append({
                        'clause': 'C09/segmentation-dependent',
                        'detail': {'what': what,
                                   'oversize': bool(scn.get('oversize'))},
                        'msg': 'variant %s differs from whole-burst: %s' % (
                            scn['variants'][i][:2], d)})
                    break
        if scn.get('wellformed'):
            for i, r in enumerate(res):
                v = _marker_check(scn, r)
                if v:
                    v['msg'] += ' (variant %s)' % (scn['variants'][i][:2],)
                    violations.append(v)
                    break
        segsig = set()
        for ev in world.events:
            if ev[1] == 'SEG':
                segsig.add((ev[2].split('#')[0], ev[3]))
        nontrivial = bool(scn.get('have_body')) and len(scn['variants']) >= 2
        states = set()
        for r in res:
            st = ()
            for c in r['calls']:
                if c[0] in ('EHLO', 'HELO', 'MAIL', 'RCPT', 'DATA',
                            'HAVE_DATA', 'RSET', 'XMARK', 'ENQ'):
                    st = st + (c[0],)
                    states.add(hash(st[-4:]))
        if any(r['out'].count(b'552 ') for r in res):
            world.probe('size-limit-hit')
        if any(b'\r\n.\r\n.\r\n' in bytes.fromhex(scn['stream']) or
               b'DATA\r\n.\r\n' in bytes.fromhex(scn['stream']) for _ in (0,)):
            world.probe('empty-body')
        return {
            'violations': violations, 'digest': world.digest(),
            'nontrivial': nontrivial, 'probes': dict(world.probes),
            'faults': dict(world.faults), 'states': sorted(states),
            'steps': world.loop.steps, 'sim_s': world.loop.elapsed(),
            'inconclusive': inconclusive,
            'harness_errors': list(world.harness_errors),
            'summary': {'stream_len': len(scn['stream']) // 2,
                        'variants': [v[0] for v in scn['variants']],
                        'replies': base['out'][:200].decode('latin1')},
        }
    finally:
        world.close()


def _first_diff(a, b):
    if a['out'] != b['out']:
        x, y = a['out'], b['out']
        n = 0
        while n < min(len(x), len(y)) and x[n] == y[n]:
            n += 1
        return 'output differs at byte %d: %r vs %r' % (
            n, x[max(0, n - 30):n + 40], y[max(0, n - 30):n + 40])
    for i, (c, d) in enumerate(zip(a['calls'], b['calls'])):
        if c != d:
            return 'callback #%d: %r vs %r' % (i, c, d)
    return 'callback count %d vs %d' % (len(a['calls']), len(b['calls']))


def _marker_check(scn, r):
    for t in scn['in_body']:
        tb = t.encode()
        for c in r['calls']:
            if c[0] in ('MAIL', 'RCPT', 'XMARK', 'EHLO', 'HELO'):
                for a in c[1:]:
                    if (isinstance(a, bytes) and tb in a) or \
                            (isinstance(a, str) and t in a):
                        return {'clause': 'C09/content-executed',
                                'detail': {'callback': c[0],
                                           'oversize': bool(scn.get('oversize'))},
                                'msg': 'in-body token %s reached callback %r'
                                       % (t, c[:2])}
        if (b'mark ' + tb) in r['out']:
            return {'clause': 'C09/content-executed',
                    'detail': {'callback': 'reply',
                               'oversize': bool(scn.get('oversize'))},
                    'msg': 'in-body token %s was answered as a command' % t}
    for t in scn['after_body']:
        tb = t.encode()
        for c in r['calls']:
            if c[0] == 'HAVE_DATA' and isinstance(c[1], bytes) and tb in c[1]:
                return {'clause': 'C09/command-swallowed', 'detail': {},
                        'msg': 'pipelined command token %s ended up in '
                               'message content' % t}
    return None


# ------------------------------------------------------------------ shrinking
def shrink_candidates(scn, clause):
    """yield simpler scenarios (tried in order by the generic shrinker)"""
    vs = scn['variants']
    # fewer variants: keep whole + one other
    if len(vs) > 2:
        for i in range(1, len(vs)):
            c = dict(scn)
            c['variants'] = [vs[0], vs[i]]
            yield c
    # latency class to zero
    for i, v in enumerate(vs):
        if v[2] != 0:
            c = dict(scn)
            c['variants'] = [list(x) for x in vs]
            c['variants'][i][2] = 0
            yield c
    # drop lines from the stream (not for marker clauses: removing a line
    # could turn body text into genuine commands)
    if clause in ('C09/content-executed', 'C09/command-swallowed'):
        return
    stream = bytes.fromhex(scn['stream'])
    lines = stream.split(b'\r\n')
    n = len(lines)
    chunk = max(1, n // 2)
    while chunk >= 1:
        i = 0
        while i < n:
            cand = lines[:i] + lines[i + chunk:]
            if cand != lines and cand:
                c = dict(scn)
                c['stream'] = b'\r\n'.join(cand).hex()
                c['wellformed'] = False
                yield c
            i += chunk
        chunk //= 2
