"""C11 - a relay reports success only for recipients the next hop accepted;
classifies failures; always ends with a result or a relay error."""
from __future__ import annotations

import random

import gevent

from sim.world import World
from harness import relay as hr

ID = 'C11'
RULE = ('every real relay (StaticSmtpRelay, StaticLmtpRelay, MxSmtpRelay with '
        'stub resolver, PipeRelay in both per-recipient modes, MaildropRelay, '
        'DovecotLdaRelay, HttpRelay) with 1-3 sequential attempts (connection '
        'reuse) of 1-3 recipients against a scripted downstream with one '
        'seeded fault per attempt: reply class {4xx,5xx,malformed} or '
        'disconnect/reset/silence at connect, banner, EHLO (incl. 500 -> HELO), '
        'STARTTLS, AUTH, MAIL, each RCPT, DATA, end of data (per recipient for '
        'LMTP), RSET, QUIT; exit status/output shapes; HTTP status classes '
        'with/without reply header; resolver answers; non-trivial = a fault '
        'was placed; distinct = distinct event-log digest')
COMPONENTS = {
    'real': ['slimta.relay.smtp.client.SmtpRelayClient',
             'slimta.relay.smtp.lmtpclient.LmtpRelayClient',
             'slimta.relay.smtp.static.StaticSmtpRelay/StaticLmtpRelay',
             'slimta.relay.smtp.mx.MxSmtpRelay/MxRecord',
             'slimta.relay.pool.RelayPool', 'slimta.relay.pipe.*',
             'slimta.relay.http.HttpRelay/HttpRelayClient',
             'slimta.http.HTTPConnection (http.client)',
             'slimta.smtp.client.Client/LmtpClient', 'slimta.util.deque'],
    'stub': ['SimLoop', 'SimSocket', 'SimTLS', 'scripted SMTP/LMTP server',
             'scripted HTTP responder', 'SimSubprocess (Popen/communicate)',
             'SimDNS (DNSResolver.query)'],
}
BUDGET = {'quick': 30000, 'thorough': 600000}
PROBES = ['kind:smtp', 'kind:lmtp', 'kind:mx', 'kind:pipe', 'kind:pipe1',
          'kind:maildrop', 'kind:dovecot', 'kind:http', 'connection-reused',
          'helo-fallback', 'rcpt-rejected', 'all-rcpts-rejected',
          'malformed-reply', 'disconnect', 'stall', 'pipelining-off',
          'starttls', 'auth', 'mx-second-host', 'mx-a-fallback', 'dns-error',
          'dns-a-fallback-error',
          'no-domain', 'lmtp-per-rcpt-failure', 'http-no-reply-header',
          'http-response-body', 'data-354-without-recipients',
          'server-closed-idle-connection', '8bit-without-8bitmime',
          'lmtp-eod-failure-then-rset-failure',
          'rcpt-and-data-refused-differently']
STATES_MEASURE = 'distinct (relay kind, fault stage, fault behaviour, pipelining) tuples'
STEP_CAP = 300000
SMTP_STAGES = ['connect', 'banner', 'ehlo', 'mail', 'rcpt', 'rcpt', 'data',
               'eod', 'eod', 'rset', 'quit', 'none', 'ehlo500', 'starttls',
               'auth']
BEHAV = ['4xx', '5xx', 'malformed', 'disconnect', 'rst', 'stall', '4xx', '5xx']


def _act(b, rng):
    if b == '4xx':
        return {'code': rng.choice(['450', '451', '452', '421'])}
    if b == '5xx':
        return {'code': rng.choice(['550', '554', '501', '552'])}
    if b == 'malformed':
        return {'shape': rng.choice(['garbage', 'badcode', 'badutf8', 'mixed'])}
    if b == 'disconnect':
        return {'act': 'disconnect'}
    if b == 'rst':
        return {'act': 'rst'}
    if b == 'stall':
        return {'act': rng.choice(['stall', 'partial'])}
    return {}


def _cls(b):
    return {'4xx': 'temp', '5xx': 'perm'}.get(b, 'temp')


def generate(seed, tier='quick'):
    rng = random.Random(seed)
    kind = rng.choice(['smtp', 'smtp', 'smtp', 'lmtp', 'lmtp', 'mx', 'pipe',
                       'pipe1', 'maildrop', 'dovecot', 'http', 'http'])
    scn = {'property': ID, 'harness': 'relay', 'seed': seed, 'kind': kind,
           'sched_seed': rng.getrandbits(48),
           'timeouts': {'connect': 5.0, 'command': 7.0, 'data': 9.0,
                        'single': 11.0}}
    nat = rng.randint(1, 3)
    attempts = []
    if kind in ('smtp', 'lmtp', 'mx'):
        pipelining = rng.random() < 0.6
        scn['extensions'] = ['8BITMIME', 'ENHANCEDSTATUSCODES'] + \
            (['PIPELINING'] if pipelining else [])
        scn['idle_timeout'] = rng.choice([None, 5.0, 5.0])
        scn['segmenter'] = rng.choice(['whole', 'whole', 'line', 'few'])
        conn = {}
        tx = {}
        use_tls = rng.random() < 0.15
        use_auth = rng.random() < 0.15
        if use_tls:
            conn['offer_starttls'] = True
            scn['tls_required'] = rng.random() < 0.5
        if use_auth:
            scn['extensions'].append('AUTH PLAIN')
            scn['credentials'] = ['user', 'secret']
        scn['connect_plan'] = []
        conn_scripts = []
        eightbit = rng.random() < 0.12
        if eightbit:
            # 8-bit content, a server without 8BITMIME, no encoder
            # configured: refused for good before anything is sent
            scn['extensions'] = [e for e in scn['extensions']
                                 if e != '8BITMIME']
            scn['body8'] = True
        for j in range(nat):
            tag = 'a%d' % j
            nr = rng.randint(1, 3)
            dom = 'd.example'
            rcpts = ['r%d.%d@%s' % (j, i, dom) for i in range(nr)]
            stage = rng.choice(SMTP_STAGES)
            if stage == 'starttls' and not use_tls:
                stage = 'none'
            if stage == 'auth' and not use_auth:
                stage = 'none'
            b = rng.choice(BEHAV)
            att = {'tag': tag, 'sender': '%s@s.example' % tag, 'rcpts': rcpts,
                   'stage': stage, 'behav': b if stage != 'none' else None}
            txs = {}
            expect = {'whole': 'ok'}
            idx = rng.randrange(nr)
            att['idx'] = idx
            if stage in ('connect', 'banner', 'ehlo', 'ehlo500', 'starttls',
                         'auth', 'quit'):
                # connection-level: only meaningful for the first attempt on a
                # fresh connection; apply to attempt 0 only
                if j != 0:
                    att['stage'], att['behav'] = 'none', None
                    stage = 'none'
            if stage == 'connect':
                scn['connect_plan'] = [{'act': rng.choice(['refuse', 'timeout',
                                                           'hang'])}]
                expect = {'whole': 'temp'}
            elif stage in ('banner', 'ehlo', 'auth'):
                conn[stage if kind != 'lmtp' or stage != 'ehlo' else 'lhlo'] \
                    = [_act(b, rng)]
                expect = {'whole': _cls(b)}
                if stage == 'ehlo' and b == '5xx' and conn.get(
                        'ehlo', [{}])[0].get('code') == '500':
                    expect = None
            elif stage == 'starttls':
                conn['starttls'] = [_act(b, rng)]
                if scn.get('tls_required') or b not in ('4xx', '5xx'):
                    expect = {'whole': _cls(b)}
                else:
                    expect = {'whole': 'ok'}
            elif stage == 'ehlo500':
                if kind == 'lmtp':
                    conn['lhlo'] = [{'code': '500'}]
                    expect = {'whole': 'perm'}
                else:
                    conn['ehlo'] = [{'code': '500'}]
                    expect = {'whole': 'ok'}     # HELO fallback
                    if rng.random() < 0.3:
                        # ... which the server refuses as well
                        hb = rng.choice(['4xx', '5xx'])
                        conn['helo'] = [_act(hb, rng)]
                        expect = {'whole': _cls(hb)}
            elif stage == 'mail':
                txs['mail'] = [_act(b, rng)]
                expect = {'whole': _cls(b)}
            elif stage == 'rcpt':
                acts = [{} for _ in range(nr)]
                acts[idx] = _act(b, rng)
                txs['rcpt'] = acts
                if b in ('4xx', '5xx'):
                    if nr == 1:
                        expect = {'whole': _cls(b)}
                        c2 = rng.random()
                        if c2 < 0.25:
                            # the DATA that follows is refused too, with a
                            # reply of the other class: what the recipient
                            # was told decides
                            txs['data'] = [{'code': '451' if b == '5xx'
                                            else '554',
                                            'text': 'no valid recipients'}]
                            att['data_other_class'] = True
                        elif c2 < 0.6:
                            # a server that answers the (pipelined) DATA with
                            # 354 although it accepted no recipient: the
                            # client has to send an empty message to get out
                            txs['data'] = [{'code': '354'}]
                            txs['eod'] = [{'code': '554',
                                           'text': '5.5.1 no valid recipients'}]
                            att['data_354_anyway'] = True
                    else:
                        expect = {'per': {rcpts[idx]: _cls(b)}, 'rest': 'ok'}
                else:
                    expect = {'whole': 'temp'}
            elif stage == 'data':
                txs['data'] = [_act(b, rng)]
                expect = {'whole': _cls(b)}
            elif stage == 'eod':
                if kind == 'lmtp':
                    acts = [{} for _ in range(nr)]
                    acts[idx] = _act(b, rng)
                    txs['eod'] = acts
                    if b in ('4xx', '5xx'):
                        expect = {'per': {rcpts[idx]: _cls(b)}, 'rest': 'ok'} \
                            if nr > 1 else {'whole-or-per': _cls(b)}
                        if rng.random() < 0.3:
                            # ... and the RSET that follows a failed
                            # transaction fails too: the per-recipient
                            # outcomes stand as the server gave them
                            txs['rset'] = [_act(rng.choice(
                                ['disconnect', 'rst', 'stall']), rng)]
                            att['rset_fails_too'] = True
                    else:
                        # replies before the fault were positive acceptances
                        expect = None
                else:
                    txs['eod'] = [_act(b, rng)]
                    expect = {'whole': _cls(b)}
            elif stage == 'rset':
                # RSET only happens after a failed transaction: combine with a
                # 5xx at MAIL
                txs['mail'] = [{'code': '550'}]
                txs['rset'] = [_act(b, rng)]
                expect = {'whole': 'perm'}
            elif stage == 'quit':
                conn['quit'] = [_act(b, rng)]
                expect = {'whole': 'ok'}
            if eightbit and expect is not None and \
                    stage not in ('connect', 'banner', 'ehlo', 'ehlo500',
                                  'starttls', 'auth'):
                expect = {'whole': 'perm'}
                att['stage'], att['behav'] = 'encoding', 'no-8bitmime'
                txs = {}
            att['expect'] = expect
            if txs:
                tx[tag] = txs
            attempts.append(att)
        # a second connection is clean (same TLS offer)
        if scn['idle_timeout'] and nat > 1 and kind != 'mx' and \
                not use_tls and rng.random() < 0.25 and \
                attempts[0]['stage'] in ('none', 'mail', 'rcpt', 'data'):
            # the server gives up the idle kept-alive connection first (421,
            # close); the next message finds that out, goes back on the
            # pool's queue and is delivered over a new connection
            conn['idle_421'] = 1.0
            scn['gap'] = 2.0
            scn['server_idle_421'] = True
        scn['conn_scripts'] = [conn, {k: v for k, v in conn.items()
                                      if k == 'offer_starttls'}]
        scn['tx_scripts'] = tx
        if kind == 'mx':
            z = rng.choice(['mx2', 'mx1', 'a', 'none', 'error', 'a-error',
                            'nodomain'])
            scn['zone_kind'] = z
            zones = {}
            if z == 'mx2':
                zones['d.example'] = {'MX': [[20, 'mx2.sim'], [10, 'mx1.sim']]}
            elif z == 'mx1':
                zones['d.example'] = {'MX': [[10, 'mx1.sim']]}
            elif z == 'a':
                zones['d.example'] = {'MX': 'nodata', 'A': ['192.0.2.1']}
            elif z == 'none':
                zones['d.example'] = {'MX': rng.choice(['nodata', 'notfound']),
                                      'A': rng.choice(['nodata', 'notfound'])}
                for a in attempts:
                    a['expect'] = {'whole': 'perm'}
                    a['stage'], a['behav'] = 'dns', 'none'
            elif z == 'error':
                zones['d.example'] = {'MX': rng.choice(['timeout',
                                                        'servfail'])}
                for a in attempts:
                    a['expect'] = {'whole': 'temp'}
                    a['stage'], a['behav'] = 'dns', 'error'
            elif z == 'a-error':
                # no MX records (a clean negative answer), then a resolver
                # fault on the fall-back address query: still a resolver
                # error, hence transient
                zones['d.example'] = {'MX': rng.choice(['nodata', 'notfound']),
                                      'A': rng.choice(['timeout', 'servfail'])}
                for a in attempts:
                    a['expect'] = {'whole': 'temp'}
                    a['stage'], a['behav'] = 'dns', 'a-error'
            else:
                for a in attempts:
                    a['rcpts'] = ['nodomain%s' % a['tag']]
                    a['expect'] = {'whole': 'perm'}
                    a['stage'], a['behav'] = 'dns', 'nodomain'
            scn['zones'] = zones
            scn['idle_timeout'] = None
    elif kind in ('pipe', 'pipe1', 'maildrop', 'dovecot'):
        procs = {}
        for j in range(nat):
            tag = 'a%d' % j
            nr = rng.randint(1, 3) if kind in ('pipe', 'dovecot') else 1
            rcpts = ['r%d.%d@d.example' % (j, i) for i in range(nr)]
            per = {}
            for r in rcpts:
                c = rng.random()
                if c < 0.45:
                    spec = {'rc': 0}
                    per[r] = 'ok'
                elif c < 0.55:
                    spec = {'hang': True}
                    per[r] = 'temp'
                else:
                    # (negative: the delivery program died from a signal)
                    rc = rng.choice([1, 75, 75, 2, 100, 255, -9, -11])
                    txt = rng.choice(['', '5.1.1 user unknown',
                                      '4.2.2 mailbox full', 'some error',
                                      'maildrop: quota exceeded',
                                      '5.1.1 ünknown'])
                    where = rng.choice(['out', 'err', 'none'])
                    spec = {'rc': rc}
                    if where != 'none':
                        spec[where] = txt + '\n'
                    shown = txt if where != 'none' else ''
                    if kind in ('pipe', 'pipe1'):
                        per[r] = 'perm' if shown[:2] == '5.' and \
                            shown[1:2] == '.' and shown[:1] == '5' and \
                            len(shown) > 5 and shown[5:6] == ' ' else 'temp'
                    else:
                        per[r] = 'temp' if rc == 75 else 'perm'
                procs[r if kind in ('pipe', 'pipe1', 'dovecot')
                      else '%s@s.example' % tag] = spec
                if spec.get('hang'):
                    # the single timeout covers the whole attempt: everything
                    # after the hanging process times out too
                    for r2 in rcpts[rcpts.index(r) + 1:]:
                        per[r2] = 'temp'
                    break
            att = {'tag': tag, 'sender': '%s@s.example' % tag, 'rcpts': rcpts,
                   'stage': 'proc', 'behav': 'exit',
                   'expect': {'per': per, 'rest': 'ok'}}
            if kind in ('pipe1', 'maildrop'):
                att['expect'] = {'whole': per[rcpts[0]]}
            attempts.append(att)
        scn['proc_script'] = procs
    else:
        scn['idle_timeout'] = rng.choice([None, 5.0])
        reqs = []
        for j in range(nat):
            tag = 'a%d' % j
            nr = rng.randint(1, 3)
            rcpts = ['r%d.%d@d.example' % (j, i) for i in range(nr)]
            c = rng.random()
            spec = {}
            expect = {'whole': 'ok'}
            stage, b = 'response', 'ok'
            if c < 0.3:
                spec = {'status': rng.choice([200, 204, 200]),
                        'reply_header': rng.choice([
                            None, '250; message="2.6.0 ok"', 'garbled',
                            '250; message="2.6.0 ok"; command="DATA"'])}
            elif c < 0.55:
                code = rng.choice(['450', '550', '451', '554', '535'])
                spec = {'status': rng.choice([400, 500, 503, 401]),
                        'reply_header': '%s; message="%s.1.1 scripted"' % (
                            code, code[0])}
                if rng.random() < 0.3:
                    # the library's own HTTP edge names the failed command
                    spec['reply_header'] += '; command="%s"' % rng.choice(
                        ['RCPT', 'DATA', 'MAIL'])
                expect = {'whole': 'perm' if code[0] == '5' else 'temp'}
                b = code[0] + 'xx'
            elif c < 0.75:
                spec = {'status': rng.choice([400, 404, 500, 503, 302, 304]),
                        'reply_header': rng.choice([
                            None, 'garbled', '', '999; message="bad code"',
                            '099; message="bad code"', '25; message="x"'])}
                expect = {'whole': 'fail'}      # class not judged (no header)
                b = 'no-header'
            else:
                spec = {'act': rng.choice(['disconnect', 'rst', 'stall',
                                           'partial', 'garbage'])}
                expect = {'whole': 'temp'}
                b = spec['act']
            if rng.random() < 0.2:
                spec['close'] = True
            reqs.append(spec)
            attempts.append({'tag': tag, 'sender': '%s@s.example' % tag,
                             'rcpts': rcpts, 'stage': stage, 'behav': b,
                             'expect': expect})
        # requests are scripted per connection; keep it simple: every
        # connection serves the remaining requests in order
        scn['http_by_tag'] = {'a%d' % j: reqs[j] for j in range(len(reqs))}
        if rng.random() < 0.15:
            scn['connect_plan'] = [{'act': rng.choice(['refuse', 'hang'])}]
            attempts[0]['expect'] = {'whole': 'temp'}
            attempts[0]['stage'], attempts[0]['behav'] = 'connect', 'refuse'
    scn['attempts'] = attempts
    return scn


def _accepted(scn, ds, att):
    """recipients of this attempt that the downstream positively accepted"""
    kind = scn['kind']
    acc = set()
    if kind in ('smtp', 'lmtp', 'mx'):
        conns = list(ds.listener.conns) + [s.conn for s in ds.listener.servers
                                           if s.conn is not None]
        seen = set()
        for c in conns:
            if id(c) in seen:
                continue
            seen.add(id(c))
            for t in c.transactions:
                if t.get('tag') != att['tag'] or not t.get('eod'):
                    continue
                if kind == 'lmtp':
                    for r, code in zip(t['rcpts'], t['eod']):
                        if code[0] == '2':
                            acc.add(r)
                elif t['eod'][0][0] == '2':
                    acc.update(t['rcpts'])
    elif kind == 'http':
        for h in ds.http:
            for rq in h.requests:
                import base64
                try:
                    snd = base64.b64decode(rq['sender'] or b'').decode()
                except Exception:
                    snd = None
                if snd == att['sender'] and isinstance(rq['status'], int) \
                        and 200 <= rq['status'] < 300:
                    for r in rq['rcpts']:
                        acc.add(base64.b64decode(r).decode())
    else:
        for call in ds.subprocess.calls:
            if call['rc'] == 0 and att['sender'] in call['args']:
                if kind in ('maildrop',):
                    acc.update(att['rcpts'][:1])
                else:
                    for r in att['rcpts']:
                        if r in call['args']:
                            acc.add(r)
    return acc


def execute(scn, debug=False):
    world = World(scn['sched_seed'], step_cap=STEP_CAP, debug=debug)
    try:
        relay, ds = hr.build_relay(world, scn)
        kind = scn['kind']
        world.probe('kind:' + kind)
        results = []

        def driver():
            for j, att in enumerate(scn['attempts']):
                env = hr.make_envelope(
                    att['sender'], att['rcpts'], att['tag'],
                    body=b'caf\xc3\xa9 \xff 8-bit\r\n' if scn.get('body8')
                    else None)
                t0 = world.loop._now
                res = hr.classify_result(lambda: relay._attempt(env, j))
                res['t'] = world.loop._now - t0
                results.append(res)
                gevent.sleep(scn.get('gap', 0.5))
        g = gevent.spawn(driver)
        ok = world.wait(g, 2000.0)
        violations = []

        def bad(clause, msg, **det):
            det.setdefault('kind', kind)
            violations.append({'clause': clause, 'detail': det, 'msg': msg})
        if not ok:
            j = len(results)
            att = scn['attempts'][j] if j < len(scn['attempts']) else {}
            bad('C11/no-result', 'attempt #%d (%s fault at %s) never returned '
                'although every timeout is finite; blocked: %s' % (
                    j, att.get('behav'), att.get('stage'),
                    world.blocked_report(5)), stage=att.get('stage'),
                behav=att.get('behav'))
        elif not g.successful():
            world.harness_errors.append('driver died: %r' % (g.exception,))
        states = set()
        for j, res in enumerate(results):
            if violations:
                break
            att = scn['attempts'][j]
            rcpts = att['rcpts']
            states.add(hash((kind, att['stage'], att['behav'],
                             'PIPELINING' in (scn.get('extensions') or []))))
            acc = _accepted(scn, ds, att)
            # normalise the reported outcome per recipient
            whole = res['whole']
            if whole and whole.startswith('foreign:'):
                bad('C11/foreign-exception', 'attempt #%d raised %s (%s) at %s; '
                    'fault %s at %s' % (j, res['raised'], res.get('msg'),
                                        res.get('site'), att['behav'],
                                        att['stage']),
                    exc=res['raised'], site=res.get('site'))
                break
            if whole and whole.startswith('bad:'):
                bad('C11/error-returned', 'attempt #%d: %s (fault %s at %s)' % (
                    j, whole, att['behav'], att['stage']), what=whole)
                break
            if res['per'] is not None:
                per = res['per']
                if isinstance(per, list):
                    per = dict(zip(rcpts, per))
                badv = [v for v in per.values() if v.startswith('bad:')]
                if badv:
                    bad('C11/error-returned', 'attempt #%d: a per-recipient '
                        'result is %s' % (j, badv[0]), what=badv[0])
                    break
                reported = {r: per.get(r, 'missing') for r in rcpts}
            else:
                reported = {r: whole for r in rcpts}
            for r in rcpts:
                if reported[r] == 'ok' and r not in acc:
                    bad('C11/false-success', 'attempt #%d reports %s delivered '
                        'but the downstream did not accept it (fault %s at %s; '
                        'downstream accepted %r; result %r)' % (
                            j, r, att['behav'], att['stage'], sorted(acc),
                            res), stage=att['stage'], behav=att['behav'])
                    break
                if reported[r] == 'missing':
                    bad('C11/error-returned', 'attempt #%d: no result for '
                        'recipient %s in the mapping' % (j, r),
                        what='missing-recipient')
                    break
            if violations:
                break
            exp = att.get('expect')
            if exp is None:
                continue
            for r in rcpts:
                if 'whole' in exp:
                    want = exp['whole']
                elif 'whole-or-per' in exp:
                    want = exp['whole-or-per']
                else:
                    want = exp['per'].get(r, exp.get('rest', 'ok'))
                got = reported[r]
                if want == 'fail':
                    if got == 'ok':
                        bad('C11/false-success', 'attempt #%d: HTTP error '
                            'status reported as success' % j, stage='response',
                            behav=att['behav'])
                    continue
                if want == 'ok' and got != 'ok':
                    if r in acc:
                        bad('C11/accepted-reported-failed', 'attempt #%d: the '
                            'downstream accepted %s and the message but the '
                            'relay reports %s (fault %s at %s)' % (
                                j, r, got, att['behav'], att['stage']),
                            stage=att['stage'], behav=att['behav'])
                        break
                    continue
                if want == 'perm' and got == 'temp':
                    bad('C11/perm-as-temp', 'attempt #%d: %s outcome for %s '
                        '(fault at %s) reported as transient: %r' % (
                            j, att['behav'], r, att['stage'], res['reply']),
                        stage=att['stage'], behav=att['behav'])
                    break
                if want == 'temp' and got == 'perm':
                    bad('C11/temp-as-perm', 'attempt #%d: %s at %s for %s '
                        'reported as permanent: %r' % (
                            j, att['behav'], att['stage'], r, res['reply']),
                        stage=att['stage'], behav=att['behav'])
                    break
            if att['behav'] in ('malformed',):
                world.probe('malformed-reply')
            if att['behav'] in ('disconnect', 'rst'):
                world.probe('disconnect')
            if att['behav'] in ('stall', 'partial'):
                world.probe('stall')
            if att['stage'] == 'ehlo500' and kind != 'lmtp':
                world.probe('helo-fallback')
            if att['stage'] == 'rcpt' and att['behav'] in ('4xx', '5xx'):
                world.probe('rcpt-rejected' if len(rcpts) > 1 else
                            'all-rcpts-rejected')
            if att['stage'] == 'starttls':
                world.probe('starttls')
            if att['stage'] == 'auth':
                world.probe('auth')
            if kind == 'lmtp' and att['stage'] == 'eod':
                world.probe('lmtp-per-rcpt-failure')
            if att['behav'] == 'no-header':
                world.probe('http-no-reply-header')
            if att.get('data_other_class'):
                world.probe('rcpt-and-data-refused-differently')
            if att.get('rset_fails_too'):
                world.probe('lmtp-eod-failure-then-rset-failure')
            if att.get('data_354_anyway'):
                world.probe('data-354-without-recipients')
        if ds.listener is not None:
            if len(results) > 1 and len(ds.listener.client_socks) < len(
                    results):
                world.probe('connection-reused')
        if 'PIPELINING' not in (scn.get('extensions') or ['PIPELINING']):
            world.probe('pipelining-off')
        if scn.get('body8'):
            world.probe('8bit-without-8bitmime')
        if scn.get('server_idle_421'):
            world.probe('server-closed-idle-connection')
        if scn.get('zone_kind') == 'a':
            world.probe('mx-a-fallback')
        if scn.get('zone_kind') == 'mx2' and len(results) > 1:
            world.probe('mx-second-host')
        if scn.get('zone_kind') == 'error':
            world.probe('dns-error')
        if scn.get('zone_kind') == 'a-error':
            world.probe('dns-a-fallback-error')
        if scn.get('zone_kind') == 'nodomain':
            world.probe('no-domain')
        # (no relay.kill() here: RelayPool.kill iterates a *set* of client
        # greenlets, whose order depends on memory addresses - the one source
        # of address-dependent ordering found by the determinism self-test;
        # World.close() kills every greenlet after the log is sealed)
        return {
            'violations': violations[:2], 'digest': world.digest(),
            'nontrivial': any(a.get('behav') for a in scn['attempts']),
            'probes': dict(world.probes), 'faults': dict(world.faults),
            'states': sorted(states),
            'steps': world.loop.steps, 'sim_s': world.loop.elapsed(),
            'inconclusive': world.loop.cap_hit,
            'harness_errors': list(world.harness_errors),
            'summary': {'kind': kind,
                        'attempts': [(a['stage'], a['behav'], len(a['rcpts']))
                                     for a in scn['attempts']],
                        'results': [(r['raised'], r['whole'], r['per'])
                                    for r in results]},
        }
    finally:
        world.close()


def shrink_candidates(scn, clause):
    atts = scn['attempts']
    if len(atts) > 1 and scn['kind'] not in ('pipe', 'pipe1', 'maildrop',
                                             'dovecot', 'http'):
        for i in range(len(atts)):
            c = dict(scn)
            c['attempts'] = atts[:i] + atts[i + 1:]
            yield c
    if scn.get('segmenter') not in (None, 'whole'):
        c = dict(scn)
        c['segmenter'] = 'whole'
        yield c
    if scn.get('idle_timeout'):
        c = dict(scn)
        c['idle_timeout'] = None
        yield c
