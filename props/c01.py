"""C01 - accepted mail reaches a final disposition (delivered, or failed for
good and bounced); until then it stays stored and is retried."""
from __future__ import annotations

from . import queue_common as qc

ID = 'C01'
RULE = ('seeded workloads of 1-3 messages x 1-4 recipients over one real '
        'backend (dict/disk/redis/cloud/cloud+mq) with scripted relay outcome '
        'histories (None/Reply/mapping/sequence/raise transient/permanent/'
        'other), seeded backoff tables, pool sizes and latencies; non-trivial '
        '= some message had >= 2 delivery attempts; distinct = distinct '
        'event-log digest')
COMPONENTS = qc.COMPONENTS
BUDGET = {'quick': 15000, 'thorough': 400000}
PROBES = ['retry-round', 'round>=3', 'per-recipient-result',
          'sequence-shaped-result', 'unexpected-exception-path',
          'mixed-outcome', 'retry-exhaustion', 'bounce', 'announcement',
          'backend:dict', 'backend:disk', 'backend:redis', 'backend:cloud',
          'backend:cloud+mq', 'relay:pipe', 'relay:pipe1', 'relay:smtp', 'relay:lmtp', 'mapping-in-other-order']
STATES_MEASURE = ('distinct (backend, per-message sequence of (result shape, '
                  'sorted per-recipient ground-truth outcomes)) vectors')
BIAS = {'p_split': 0.15, 'relays': ['script', 'script', 'script', 'pipe', 'pipe1', 'smtp',
                   'lmtp']}


def generate(seed, tier='quick'):
    return qc.generate(seed, ID, BIAS)


def judge(scn, obs, world):
    v = []
    be = scn['backend']
    if obs['status'] == 'cap':
        return v
    an = qc.analyse(scn, obs)
    bounced = qc.bounced_rcpts(obs)
    for k, err, msg in obs['enqueue_errors']:
        pass
    exc_sites = sorted(set((e[0], e[2]) for e in world.exceptions
                           if e[0] not in ('RuntimeError',) or
                           'scripted' not in e[1]))
    for k, a in sorted(an.items()):
        m = a['m']
        if a['acc'] is None:
            continue
        if obs['final'] is None:
            continue
        named = bounced.get(k, set())
        shifted = qc.index_shift(scn, obs, a)

        def det(**kw):
            if shifted:
                return {'backend': 'persistent',
                        'history': 'multi-round-relative-index'}
            d = {'backend': be}
            d.update(kw)
            return d
        for r in m['rcpts']:
            if r in a['delivered']:
                continue
            failed = (r in a['perm']) or (a['given_up'] and r in a['last_temp'])
            stored = a['stored'] is not None and r in a['stored'].get(
                'rcpts', ())
            if failed:
                if m['sender'] and r not in named:
                    v.append({'clause': 'C01/no-bounce',
                              'detail': det(),
                              'msg': 'message %d recipient %s failed for good '
                                     'but no bounce to %s names it' % (
                                         k, r, m['sender'])})
                continue
            # still outstanding at the horizon
            if a['in_flight']:
                v.append({'clause': 'C01/attempt-never-ended',
                          'detail': {'backend': be},
                          'msg': 'message %d: a relay attempt is still '
                                 'running at the horizon' % k})
                break
            if not stored:
                v.append({'clause': 'C01/lost',
                          'detail': det(exceptions=exc_sites[:3]),
                          'msg': 'message %d recipient %s: neither delivered '
                                 'nor bounced nor still in storage '
                                 '(attempts=%d, stored=%r, escaped exceptions '
                                 '%r)' % (k, r, len(a['attempts']),
                                          a['stored'], exc_sites[:3])})
                break
            v.append({'clause': 'C01/stuck',
                      'detail': det(exceptions=exc_sites[:3]),
                      'msg': 'message %d recipient %s still outstanding in '
                             'storage at the horizon and not being retried '
                             '(attempts so far %d, queue internals %r, '
                             'escaped exceptions %r)' % (
                                 k, r, len(a['attempts']), obs['internals'],
                                 exc_sites[:3])})
            break
    return v


def execute(scn, debug=False):
    return qc.execute(scn, judge, debug=debug)


shrink_candidates = qc.shrink_candidates
