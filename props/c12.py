"""C12 - a queued message is attempted when due, never early, never
forgotten; flush() returns and makes waiting messages be attempted."""
from __future__ import annotations

from . import queue_common as qc
from .c03 import racing_fetch, hq_norm

ID = 'C12'
RULE = ('as C01 but biased to time: backoff tables over {0,1,1,5,30,300} '
        'with equal due times, messages pre-loaded in storage before start() '
        '(past, present and future due times), messages announced through '
        'wait() by a second relay-less Queue on the same backend, flush() at '
        'seeded instants on the started queue, bounded pools; due times are '
        'compared in exact virtual time; non-trivial = some message had >= 2 '
        'attempts or was pre-loaded/announced/flushed; distinct = distinct '
        'event-log digest')
COMPONENTS = qc.COMPONENTS
BUDGET = {'quick': 15000, 'thorough': 300000}
PROBES = ['retry-round', 'preloaded', 'announced-by-second-queue',
          'retry-later-than-due', 'flush-call', 'flush-with-waiting-message',
          'requeue-after-flush',
          'equal-due-times', 'backoff-0-retry', 'announcement',
          'backend:dict', 'backend:disk', 'backend:redis', 'backend:cloud',
          'backend:cloud+mq']
STATES_MEASURE = 'distinct (backend, per-message attempt-shape sequence)'
BIAS = {'p_split': 0.2, 'p_slow_store': 0.4, 'max_msgs': 4,
        'p_startup_burst': 0.1,
        'L': [1, 2, 2, 3], 'waits': (0, 0, 1, 1, 5, 30, 300),
        'hows': ['enqueue', 'enqueue', 'preload', 'announce'],
        'n_flush': [0, 0, 1, 1, 2], 'p_map': 0.3,
        'whole': ['temp', 'temp', 'temp', 'other', 'none', 'perm'],
        'store_pools': [None, None, 1, 2, 3], 'relay_pools': [None, None, 1, 2],
        'relay_lat': (0.0, 0.0, 0.001, 0.01, 0.3)}
FLUSH_BOUND = 10.0      # far above any storage latency, far below the waits
EPS = 1e-6
LATE = 0.05        # slack for "started late" (virtual seconds)


def generate(seed, tier='quick'):
    scn = qc.generate(seed, ID, BIAS)
    return scn


def due_history(obs, id):
    """[(persisted_at, due)] for this id, in completion order"""
    out = []
    for o in obs['store_ops']:
        if o['t1'] is None or not o['ok'] or o['id'] is None:
            continue
        if hq_norm(o['id']) != id:
            continue
        if o['op'] in ('write', 'set_timestamp'):
            out.append((o['t1'], o['args'], o['s1'], o['op'] != 'write'))
    # the write's effect precedes every later update of the same id, even
    # when its reply reaches the caller after theirs (an announcing backend
    # lets the first attempt and its re-queue finish before write() returns)
    out.sort(key=lambda x: (x[3], x[2]))
    return [x[:3] for x in out]


def busy_intervals(obs, flushes=True):
    """every interval of virtual time during which some storage operation,
    relay attempt or flush() call of the run was in progress, merged"""
    end = obs['t_end']
    iv = []
    for o in obs['store_ops']:
        iv.append((o['t0'], end if o['t1'] is None else o['t1']))
    for a in obs['attempts']:
        iv.append((a['t0'], end if a['t1'] is None else a['t1']))
    for f in obs['flushes'] if flushes else ():
        iv.append((f['t0'], end if f['t1'] is None else f['t1']))
    iv.sort()
    out = []
    for a, b in iv:
        if out and a <= out[-1][1]:
            out[-1][1] = max(out[-1][1], b)
        else:
            out.append([a, b])
    return out


def idle_within(busy, a, b):
    """measure of [a, b] covered by no busy interval"""
    idle, cur = 0.0, a
    for x, y in busy:
        if y <= cur:
            continue
        if x >= b:
            break
        if x > cur:
            idle += x - cur
        cur = max(cur, y)
        if cur >= b:
            break
    if cur < b:
        idle += b - cur
    return idle


def judge(scn, obs, world):
    v = []
    be = scn['backend']
    if obs['status'] == 'cap':
        return v
    an = qc.analyse(scn, obs)
    flushes = obs['flushes']
    busy = busy_intervals(obs)
    busy_nf = busy_intervals(obs, flushes=False)
    if flushes:
        world.probe('flush-call')
    if len(set(scn['backoff'])) < len(scn['backoff']):
        world.probe('equal-due-times')
    if any(w == 0 for w in scn['backoff']):
        world.probe('backoff-0-retry')
    # (3) flush returns promptly
    for i, f in enumerate(flushes):
        if f['t1'] is None:
            v.append({'clause': 'C12/flush-blocked', 'detail': {},
                      'msg': 'flush() called at t=%.3f on the running queue '
                             'never returned (blocked at %s)' % (
                                 f['t0'] - world.loop._start,
                                 world.blocked_report())})
            break
        # flush() may wait for storage work (it spawns into the store pool)
        # but not on the sleeping scheduler loop: time inside the call during
        # which no storage operation or attempt was in progress
        idle = idle_within(busy_nf, f['t0'], f['t1'])
        if idle > 1.0:
            v.append({'clause': 'C12/flush-blocked',
                      'detail': {'returned': 'late'},
                      'msg': 'flush() took %.1f virtual seconds, %.1f of them '
                             'with no storage operation or attempt in '
                             'progress: it waited on the scheduler loop' % (
                                 f['t1'] - f['t0'], idle)})
            break
    for k, a in sorted(an.items()):
        m = a['m']
        if m.get('how') == 'preload':
            world.probe('preloaded')
        if m.get('how') == 'announce' and a['acc'] is not None:
            world.probe('announced-by-second-queue')
        if a['acc'] is None or obs['final'] is None:
            continue
        id = a['acc']['id']
        dh = due_history(obs, id)
        shifted = qc.index_shift(scn, obs, a)

        def det(**kw):
            if shifted:
                return {'backend': 'persistent',
                        'history': 'multi-round-relative-index'}
            d = {'backend': be}
            d.update(kw)
            return d
        # (1c) announced by the storage: due at once, so the first attempt
        # follows the announcement with nothing but work in between
        if m.get('how') == 'announce' and a['attempts'] and not shifted:
            anns = [t for t, i2 in obs['announces'] if i2 == id]
            att0 = a['attempts'][0]
            if anns and att0['t0'] > anns[0] + LATE:
                idle = idle_within(busy, anns[0], att0['t0'])
                if idle > LATE:
                    v.append({'clause': 'C12/late',
                              'detail': det(how='announce'),
                              'msg': 'message %d was announced by the storage '
                                     'at t=%.6f and first attempted at t=%.6f, '
                                     '%.3f s of that with no storage '
                                     'operation, attempt or flush in progress'
                                     % (k, anns[0] - world.loop._start,
                                        att0['t0'] - world.loop._start, idle)})
        # (1) never early
        prev = None
        for i, att in enumerate(a['attempts']):
            known = [x for x in dh if x[2] < att['start_seq']]
            if known:
                p, due, ps = known[-1]
                # (a flush() still in progress - blocked on the queue lock
                # or on a full store pool - when the message began to wait
                # covers it too: it detaches the waiting entries only then)
                flushed = any(f['s0'] < att['start_seq'] and
                              (f['s1'] is None or f['s1'] > ps)
                              for f in flushes)
                if att['t0'] < due - EPS and not flushed:
                    d = det(how=m.get('how', 'enqueue'))
                    if prev is not None and not shifted and racing_fetch(
                            obs, a, prev, att):
                        d = {'race': 'first-attempt-completes-before-write-returns'}
                    v.append({'clause': 'C12/early', 'detail': d,
                              'msg': 'message %d attempt #%d started at '
                                     't=%.6f, %.6f s before its due time '
                                     '(persisted at t=%.6f), without a flush'
                                     % (k, i, att['t0'] - world.loop._start,
                                        due - att['t0'],
                                        p - world.loop._start)})
                    break
                if flushed and att['t0'] < due - EPS:
                    world.probe('attempt-triggered-by-flush')
                # (1b) attempted once the time has passed: a retry the
                # running queue scheduled itself may start later than its
                # due time only while something (a storage operation, an
                # attempt, a flush) is in progress that it can be waiting
                # for - the scheduler is work-conserving.  Sound because
                # computation takes no virtual time.
                served = any(x['start_seq'] > ps for x in a['attempts'][:i])
                if i > 0 and not flushed and not served and not shifted \
                        and att['t0'] > due + LATE:
                    world.probe('retry-later-than-due')
                    idle = idle_within(busy, due, att['t0'])
                    if idle > LATE:
                        v.append({'clause': 'C12/late',
                                  'detail': det(how=m.get('how', 'enqueue')),
                                  'msg': 'message %d attempt #%d was due at '
                                         't=%.6f and started at t=%.6f: %.3f s '
                                         'late, of which %.3f s with no storage '
                                         'operation, attempt or flush in '
                                         'progress anywhere' % (
                                             k, i, due - world.loop._start,
                                             att['t0'] - world.loop._start,
                                             att['t0'] - due, idle)})
                        break
            if att['t1'] is not None:
                prev = att
        # (2) never forgotten: stored, unsettled, and no attempt at/after the
        # last due time although the horizon is far beyond it
        st = a['stored']
        if st is not None and not a['in_flight'] and dh:
            outstanding = [r for r in m['rcpts'] if r not in a['delivered']
                           and r not in a['perm']]
            p, due, ps = dh[-1]
            served = any(att['start_seq'] > ps for att in a['attempts'])
            if outstanding and not served and obs['t_end'] > due + 30.0:
                ids = obs['internals']
                where = ('in neither the timetable nor the in-flight set'
                         if id not in ids['queued_ids'] and
                         id not in ids['active_ids'] else
                         'timetable=%s in_flight=%s' % (
                             id in ids['queued_ids'], id in ids['active_ids']))
                exc = sorted(set((e[0], e[2]) for e in world.exceptions
                                 if 'scripted' not in e[1]))[:3]
                v.append({'clause': 'C12/forgotten',
                          'detail': det(how=m.get('how', 'enqueue'),
                                        exceptions=exc),
                          'msg': 'message %d (%s) is stored with outstanding '
                                 'recipients, due at t=%.3f, horizon t=%.3f, '
                                 'but was never attempted after becoming due: '
                                 '%s; escaped exceptions %r; blocked: %s' % (
                                     k, m.get('how', 'enqueue'),
                                     due - world.loop._start,
                                     obs['t_end'] - world.loop._start, where,
                                     exc, world.blocked_report(6))})
        # (4) flush makes every waiting message be attempted
        for f in flushes:
            if f['t1'] is None:
                continue
            known = [x for x in dh if x[2] < f['s0']]
            if not known:
                continue
            p, due, ps = known[-1]
            running = any(att['t0'] <= f['t0'] and (att['t1'] is None or
                                                    att['t1'] >= f['t0'])
                          for att in a['attempts'])
            # waiting = stored, due in the future, no attempt in progress and
            # outcome of the previous attempt fully recorded before the flush
            last_done = [att for att in a['attempts'] if att['t1'] is not None
                         and att['t1'] <= f['t0']]
            settled_all = last_done and not any(
                t == 'temp' for t in (last_done[-1]['truth'] or {}).values())
            if running or settled_all or due <= f['t0'] + EPS:
                continue
            removed = any(o['op'] == 'remove' and o['id'] is not None and
                          hq_norm(o['id']) == id and o['s0'] < f['s0']
                          for o in obs['store_ops'])
            if removed:
                continue        # given up / finished before the flush
            if not last_done and m.get('how', 'enqueue') == 'enqueue':
                continue
            if not last_done:
                # never attempted yet: it waits only once the running queue
                # has learned of it - its start-up listing has ended, or the
                # storage has announced it and the announcement was taken in
                learned = any(o['op'] == 'load' and o['tag'] == 's' and
                              o['s1'] is not None and o['s1'] < f['s0'] and
                              any(i == id for ts, i in o['args'])
                              for o in obs['store_ops']) or \
                    any(t < f['t0'] - 0.5 and i == id
                        for t, i in obs['announces'])
                if not learned:
                    continue
            else:
                # the re-queue of the last attempt was recorded (its
                # set_timestamp had returned) before flush() was called
                if not any(x[2] > last_done[-1]['end_seq'] and x[2] < f['s0']
                           for x in dh):
                    continue
                # ... and so was everything else of that outcome (delivered
                # marks are recorded before the message goes back on the
                # timetable)
                if any(o['id'] is not None and hq_norm(o['id']) == id and
                       o['tag'] == 's' and o['s0'] < f['s0'] and
                       (o['s1'] is None or o['s1'] > f['s0'])
                       for o in obs['store_ops']):
                    continue
            if p > f['t0'] - 0.5 and not last_done:
                continue        # still being recorded around the flush
            world.probe('flush-with-waiting-message')
            # "immediately": the attempt may wait for storage work and for
            # pool slots, i.e. only while something is in progress
            nxt = [att for att in a['attempts'] if att['t0'] >= f['t0'] - EPS]
            hit = [att for att in nxt[:1]
                   if idle_within(busy_nf, f['t1'], att['t0']) <= 1.0]
            if not hit:
                v.append({'clause': 'C12/flush-ineffective', 'detail': det(),
                          'msg': 'message %d was waiting (due t=%.3f) when '
                                 'flush() was called at t=%.3f but %s' % (
                                     k, due - world.loop._start,
                                     f['t0'] - world.loop._start,
                                     'it was never attempted again' if not nxt
                                     else 'its next attempt started at t=%.3f'
                                     ', after %.1f s with nothing in progress'
                                     % (nxt[0]['t0'] - world.loop._start,
                                        idle_within(busy_nf, f['t1'],
                                                    nxt[0]['t0'])))})
                break
            # (5) re-queued after a flush-triggered attempt: covered by (2)
            if any((att['truth'] or {}) and 'temp' in att['truth'].values()
                   for att in hit):
                world.probe('requeue-after-flush')
    return v


def execute(scn, debug=False):
    return qc.execute(scn, judge, debug=debug,
                      nontrivial_fn=lambda scn, obs, an: bool(obs['flushes'])
                      or any(len(a['attempts']) >= 2 or
                             a['m'].get('how') in ('preload', 'announce')
                             for a in an.values()))


shrink_candidates = qc.shrink_candidates
