"""C14 - no peer can hold a session or a delivery attempt beyond its
configured timeouts.  Virtual time makes the bound exact: the silent / trickling
peer starts at a known instant and the session or attempt must be over by
that instant plus the timeout of the stage (plus clean-up timeouts)."""
from __future__ import annotations

import base64
import random

import gevent

from sim.world import World
from sim import net
from sim.tls import SimTLSContext, record, REC_HANDSHAKE
from harness import session as hs
from harness import relay as hr
from .c07 import Client as LineClient

ID = 'C14'
RULE = ('server side: real SmtpEdge with finite command/data timeouts against '
        'a scripted client that goes silent, trickles one byte per interval or '
        'never finishes a line at a seeded stage (after banner, after each '
        'command, mid-line, inside DATA, after end-of-data, in the AUTH '
        'continuation, in the TLS handshake); client side: every real relay '
        'with finite timeouts against a downstream that stalls, sends half a '
        'reply or trickles at a seeded stage, PIPELINING on/off, SMTP/LMTP, '
        'immediate TLS; non-trivial = every run (a stall is always placed); '
        'distinct = distinct event-log digest')
COMPONENTS = {
    'real': ['slimta.edge.smtp.SmtpEdge', 'slimta.smtp.server.Server',
             'slimta.smtp.auth.AuthSession', 'slimta.smtp.io.IO',
             'slimta.relay.smtp.client.SmtpRelayClient',
             'slimta.relay.smtp.lmtpclient.LmtpRelayClient',
             'slimta.relay.smtp.static.*', 'slimta.relay.pool.RelayPool',
             'slimta.relay.pipe.PipeRelay', 'slimta.relay.http.HttpRelay',
             'gevent.Timeout'],
    'stub': ['SimLoop (virtual clock)', 'SimSocket', 'SimTLS', 'scripted '
             'stalling client', 'scripted stalling SMTP/HTTP downstream',
             'SimSubprocess'],
}
BUDGET = {'quick': 30000, 'thorough': 400000}
PROBES = ['server:after-banner', 'server:after-command', 'server:mid-line',
          'server:in-data', 'server:after-eod', 'server:auth-continuation',
          'server:tls-handshake', 'server:trickle', 'client:connect',
          'client:banner', 'client:ehlo', 'client:mail', 'client:rcpt',
          'client:data', 'client:eod', 'client:quit', 'client:starttls',
          'client:tls-immediately', 'client:trickle', 'client:partial-reply',
          'client:pipe', 'client:pipe-slow', 'client:http',
          'client:http-body-stall', 'client:http-trickle', 'client:lmtp',
          'client:reuse',
          'client:idle-partial', 'server:partial-line-behind-command']
STATES_MEASURE = 'distinct (side, relay kind, stage, stall shape, pipelining) tuples'
STEP_CAP = 400000
SRV_STAGES = ['after-banner', 'after-command', 'after-command', 'mid-line',
              'in-data', 'in-data', 'after-eod', 'auth-continuation',
              'tls-handshake']
CL_STAGES = ['connect', 'banner', 'ehlo', 'mail', 'rcpt', 'data', 'eod', 'eod',
             'quit', 'starttls', 'tls-immediately', 'rset', 'idle-partial']


def generate(seed, tier='quick'):
    rng = random.Random(seed)
    side = rng.choice(['server', 'client', 'client'])
    scn = {'property': ID, 'seed': seed, 'side': side,
           'sched_seed': rng.getrandbits(48)}
    if side == 'server':
        stage = rng.choice(SRV_STAGES)
        scn.update({
            'stage': stage,
            'shape': rng.choice(['silent', 'silent', 'trickle']),
            'command_timeout': rng.choice([5.0, 30.0]),
            'data_timeout': rng.choice([None, 20.0, 60.0]),
            'after': rng.choice(['EHLO', 'MAIL', 'RCPT', 'NOOP', 'RSET']),
            'gap': rng.choice([1.0, 3.0]),
            'joined': rng.random() < 0.5})
    else:
        kind = rng.choice(['smtp', 'smtp', 'smtp', 'lmtp', 'pipe', 'pipe1',
                           'http'])
        stage = rng.choice(CL_STAGES)
        scn.update({'kind': kind, 'stage': stage,
                    'shape': rng.choice(['stall', 'stall', 'partial',
                                         'trickle']),
                    'timeouts': {'connect': rng.choice([4.0, 10.0]),
                                 'command': rng.choice([6.0, 15.0]),
                                 'data': rng.choice([None, 25.0]),
                                 'single': rng.choice([8.0, 20.0])},
                    'pipelining': rng.random() < 0.6,
                    'nr': rng.randint(1, 3),
                    'idx': rng.randrange(3),
                    'reuse': rng.random() < 0.3,
                    'gap': rng.choice([1.0, 2.5])})
        if kind == 'http':
            scn['http_body_stall'] = rng.random() < 0.4
        if kind == 'pipe':
            scn['pipe_mode'] = rng.choice(['one-hang', 'all-hang', 'slow'])
            scn['nr'] = rng.randint(1, 4)
    return scn


def execute(scn, debug=False):
    world = World(scn['sched_seed'], step_cap=STEP_CAP, debug=debug)
    try:
        result = {'violations': []}
        fn = _server if scn['side'] == 'server' else _client
        g = gevent.spawn(fn, world, scn, result)
        ok = world.wait(g, 5000.0)
        if not ok:
            result['violations'].append({
                'clause': 'C14/harness', 'detail': {},
                'msg': 'driver did not finish: %s' % world.blocked_report()})
        elif not g.successful():
            world.harness_errors.append('driver died: %r' % (g.exception,))
        he = list(world.harness_errors)
        v = [x for x in result['violations'] if x['clause'] != 'C14/harness']
        he += [x['msg'] for x in result['violations']
               if x['clause'] == 'C14/harness']
        return {
            'violations': v[:2], 'digest': world.digest(), 'nontrivial': True,
            'probes': dict(world.probes), 'faults': dict(world.faults),
            'states': [hash((scn['side'], scn.get('kind'), scn['stage'],
                             scn['shape'], scn.get('pipelining')))],
            'steps': world.loop.steps, 'sim_s': world.loop.elapsed(),
            'inconclusive': world.loop.cap_hit, 'harness_errors': he,
            'summary': {k: scn.get(k) for k in ('side', 'kind', 'stage',
                                                'shape', 'timeouts',
                                                'command_timeout',
                                                'data_timeout')},
        }
    finally:
        world.close()


def _bad(result, clause, msg, **det):
    result['violations'].append({'clause': clause, 'detail': det, 'msg': msg})


# -------------------------------------------------------------------- server
def _server(world, scn, result):
    hs.install_seams()
    hs.PTR.latency = 0.0
    hs.PTR.answer = None
    stage = scn['stage']
    ct, dt = scn['command_timeout'], scn['data_timeout']
    cfg = {'command_timeout': ct, 'data_timeout': dt, 'verdicts': {},
           'auth': stage == 'auth-continuation',
           'tls': stage in ('tls-handshake', 'auth-continuation')}
    if stage == 'auth-continuation':
        cfg['tls_immediately'] = True
    a, b = net.socketpair(world, 'c14', a_opts={'latency': net.LAT_ZERO},
                          b_opts={'latency': net.LAT_ZERO})
    trace = hs.Trace(world, 's')
    srv = hs.start_server(world, trace, cfg, b, a.getpeername())
    sock = a
    if cfg.get('tls_immediately'):
        sock = SimTLSContext().wrap_socket(a)
    cl = LineClient(world, sock)
    world.probe('server:' + stage)
    if scn['shape'] == 'trickle':
        world.probe('server:trickle')
    now = lambda: world.loop._now
    out = bytearray()

    def cmd(line):
        sock.sendall(line + b'\r\n')
        return cl.read_reply(timeout=1000.0)
    cl.read_reply()
    t_ref = now()            # time of the last completed command
    limit = ct
    trickle_data = None
    if stage == 'after-banner':
        pass
    else:
        cmd(b'EHLO c.example')
        t_ref = now()
        if stage == 'after-command':
            seq = {'EHLO': [], 'MAIL': [b'MAIL FROM:<s@a.example>'],
                   'RCPT': [b'MAIL FROM:<s@a.example>',
                            b'RCPT TO:<r@b.example>'],
                   'NOOP': [b'NOOP'], 'RSET': [b'RSET']}[scn['after']]
            for l in seq:
                cmd(l)
            t_ref = now()
        elif stage == 'mid-line':
            trickle_data = b'MAIL FROM:<very-slow-sender@a.example'
            if scn['shape'] == 'silent':
                if scn.get('joined'):
                    # the unfinished line arrives in the same segment as a
                    # complete command before it
                    sock.sendall(b'NOOP\r\nMAIL FR')
                    cl.read_reply(timeout=1000.0)
                    t_ref = now()
                    world.probe('server:partial-line-behind-command')
                else:
                    sock.sendall(b'MAIL FR')
                trickle_data = None
        elif stage in ('in-data', 'after-eod'):
            cmd(b'MAIL FROM:<s@a.example>')
            cmd(b'RCPT TO:<r@b.example>')
            r = cmd(b'DATA')
            t_ref = now()
            limit = dt or ct
            if stage == 'in-data':
                if scn['shape'] == 'silent':
                    sock.sendall(b'Subject: x\r\n\r\npartial body')
                else:
                    trickle_data = b'Subject: trickle\r\n\r\n' + b'x' * 400
            else:
                sock.sendall(b'Subject: x\r\n\r\nbody\r\n.\r\n' +
                             (b'QUI' if scn.get('joined') else b''))
                cl.read_reply(timeout=1000.0)
                t_ref = now()
                limit = ct
                if scn.get('joined'):
                    world.probe('server:partial-line-behind-command')
        elif stage == 'auth-continuation':
            sock.sendall(b'AUTH PLAIN\r\n')
            r = cl.read_reply(timeout=1000.0)
            t_ref = now()
            if scn['shape'] == 'trickle':
                trickle_data = base64.b64encode(b'\0user\0' + b'p' * 300)
        elif stage == 'tls-handshake':
            r = cmd(b'STARTTLS')
            t_ref = now()
            if scn['shape'] == 'trickle':
                # a record that never completes
                trickle_data = record(REC_HANDSHAKE, b'client-hello')[:-1] * 40
    # --- the stall: silence, or one byte per gap (never completing)
    if trickle_data is not None:
        def trickler():
            try:
                for i in range(len(trickle_data)):
                    sock.sendall(trickle_data[i:i + 1])
                    gevent.sleep(scn['gap'])
            except Exception:
                pass
        gevent.spawn(trickler)
    deadline = t_ref + limit
    # wait for the server to end the session
    ended = world.wait(srv, limit + 200.0)
    t_end = now()
    # what did the server say last?
    tail = b''
    try:
        with gevent.Timeout(1.0):
            while True:
                d = a.recv(4096)
                if not d:
                    break
                tail += d
    except (gevent.Timeout, OSError):
        pass
    if not ended:
        _bad(result, 'C14/server-held',
             'the session is still open %.0f s after the %s timeout (%.0f s) '
             'should have ended it; server blocked at %s' % (
                 t_end - deadline, 'data' if limit != ct else 'command',
                 limit, world.blocked_report(3)), stage=stage,
             shape=scn['shape'])
        return
    if t_end > deadline + 0.5:
        _bad(result, 'C14/server-held',
             'the session ended %.1f s after the deadline (last completed '
             'command + %.0f s)' % (t_end - deadline, limit), stage=stage,
             shape=scn['shape'], what='late')
        return
    if stage not in ('tls-handshake',) and b'421' not in tail and \
            not cfg.get('tls_immediately'):
        _bad(result, 'C14/server-no-421',
             'the session was ended without a 421 reply (last bytes %r)'
             % tail[-60:], stage=stage)


# -------------------------------------------------------------------- client
def _client(world, scn, result):
    kind = scn['kind']
    stage = scn['stage']
    shape = scn['shape']
    to = scn['timeouts']
    nr = scn['nr']
    act = {'act': shape}
    if shape == 'trickle':
        act['gap'] = scn['gap']
        world.probe('client:trickle')
    if shape == 'partial':
        world.probe('client:partial-reply')
    rs = dict(scn, conn_scripts=[{}], tx_scripts={}, idle_timeout=5.0 if
              scn['reuse'] else None)
    rs['extensions'] = ['8BITMIME'] + (['PIPELINING'] if scn['pipelining']
                                       else [])
    attempts = [{'tag': 'a0', 'rcpts': ['r0.%d@d.example' % i
                                        for i in range(nr)]}]
    if stage in ('connect', 'banner', 'ehlo', 'starttls', 'tls-immediately'):
        # connection-level stages only occur on a fresh connection
        rs['idle_timeout'] = None
    elif scn['reuse'] and kind in ('smtp', 'lmtp', 'http'):
        attempts.insert(0, {'tag': 'w0', 'rcpts': ['warm@d.example']})
        world.probe('client:reuse')
    bound_stage = to['command']
    if kind in ('smtp', 'lmtp'):
        world.probe('client:' + stage)
        if kind == 'lmtp':
            world.probe('client:lmtp')
        conn = {}
        tx = {}
        if stage == 'connect':
            rs['connect_plan'] = [{'act': 'hang'}]
            bound_stage = to['connect']
        elif stage in ('banner', 'quit'):
            conn[stage] = [act]
        elif stage == 'ehlo':
            conn['lhlo' if kind == 'lmtp' else 'ehlo'] = [act]
        elif stage == 'starttls':
            conn['offer_starttls'] = True
            conn['starttls'] = [act]
            if shape == 'stall':
                # say 220, then never handshake
                conn['starttls'] = [{'code': '220', 'no_handshake': True}]
        elif stage == 'tls-immediately':
            rs['tls_immediately'] = True
            conn['tls_immediately_stall'] = True
        elif stage == 'mail':
            tx['a0'] = {'mail': [act]}
        elif stage == 'rcpt':
            acts = [{} for _ in range(nr)]
            acts[scn['idx'] % nr] = act
            tx['a0'] = {'rcpt': acts}
        elif stage == 'data':
            tx['a0'] = {'data': [act]}
            bound_stage = max(to['command'], to['data'] or 0)
        elif stage == 'eod':
            acts = [{} for _ in range(nr if kind == 'lmtp' else 1)]
            acts[scn['idx'] % len(acts)] = act
            tx['a0'] = {'eod': acts}
            bound_stage = to['data'] or to['command']
        elif stage == 'rset':
            tx['a0'] = {'mail': [{'code': '550'}], 'rset': [act]}
        elif stage == 'idle-partial':
            # a kept-alive connection on which the server, while idle, sends
            # the start of an unsolicited line and then nothing
            conn['idle_421'] = 1.0
            conn['idle_partial'] = True
            rs['idle_timeout'] = 30.0
            if not attempts or attempts[0]['tag'] != 'w0':
                attempts.insert(0, {'tag': 'w0', 'rcpts': ['warm@d.example']})
        rs['conn_scripts'] = [conn, conn]
        rs['tx_scripts'] = tx
    elif kind in ('pipe', 'pipe1'):
        world.probe('client:pipe')
        rs['proc_script'] = {'r0.%d@d.example' % (scn['idx'] % nr):
                             {'hang': True}}
        pm = scn.get('pipe_mode', 'one-hang')
        if pm == 'all-hang':
            # one process per recipient, every one of them hangs: the single
            # timeout bounds the attempt, not each process
            rs['proc_script'] = {'r0.%d@d.example' % j: {'hang': True}
                                 for j in range(nr)}
        elif pm == 'slow' and nr >= 2 and kind == 'pipe':
            # no process hangs, each takes most of the timeout
            rs['proc_script'] = {'r0.%d@d.example' % j:
                                 {'lat': 0.7 * to['single']}
                                 for j in range(nr)}
            world.probe('client:pipe-slow')
        if kind == 'pipe1':
            attempts[0]['rcpts'] = attempts[0]['rcpts'][:1]
            rs['proc_script'] = {'r0.0@d.example': {'hang': True}}
        bound_stage = to['single']
    else:
        world.probe('client:http')
        a = dict(act)
        if shape == 'trickle':
            a = {'act': 'trickle', 'gap': scn['gap']}
            world.probe('client:http-trickle')
        if scn.get('http_body_stall') and stage != 'connect':
            # complete status line and headers, silence inside the body; a
            # second attempt on the same bounded pool must not be held by
            # the first one's connection
            a = {'act': 'body-stall', 'status': 200,
                 'reply_header': '250 2.6.0 ok'}
            rs['pool_size'] = 1
            attempts.append({'tag': 'a1', 'rcpts': ['r1.0@d.example']})
            world.probe('client:http-body-stall')
        rs['http_by_tag'] = {'a0': a}
        if stage == 'connect':
            rs['connect_plan'] = [{'act': 'hang'}]
        bound_stage = to['single']
    relay, ds = hr.build_relay(world, rs)
    if kind in ('smtp', 'lmtp') and stage in ('starttls', 'tls-immediately'):
        _patch_tls_stall(ds, rs)
    # total bound: the stalled stage + clean-up (RSET, QUIT: one command
    # timeout each) + a second of slack for latencies
    cleanup = 2 * to['command'] if kind in ('smtp', 'lmtp') else 0
    res = None
    t_stall = None
    for att in attempts:
        env = hr.make_envelope('%s@s.example' % att['tag'], att['rcpts'],
                               att['tag'])
        t0 = world.loop._now
        box = {}

        def run():
            box['res'] = hr.classify_result(lambda: relay._attempt(env, 0))
        g = gevent.spawn(run)
        budget = bound_stage + cleanup + 300.0
        ok = world.wait(g, budget)
        t1 = world.loop._now
        if att['tag'] == 'a1':
            # the attempt after the stalled one
            if not ok or (t1 - t0) > bound_stage + cleanup + 1.0:
                _bad(result, 'C14/attempt-held',
                     'the attempt made after the stalled one %s (bound '
                     '%.0f s): the first connection still holds the pool; '
                     'blocked at %s' % (
                         'is still blocked after %.0f s' % (t1 - t0) if not ok
                         else 'took %.1f s' % (t1 - t0), bound_stage,
                         world.blocked_report(4)),
                     kind=kind, stage='after-body-stall')
            return
        if att['tag'] != 'a0':
            gevent.sleep(3.0 if stage == 'idle-partial' else 0.2)
            continue
        # when did the peer start stalling?
        t_stall = t0
        if ds.listener is not None:
            for srv in ds.listener.servers:
                c = getattr(srv, 'conn', None)
                if c is not None and getattr(c, 'stalled_at', None):
                    t_stall = c.stalled_at[1]
        if not ok:
            _bad(result, 'C14/attempt-held',
                 'the attempt is still blocked %.0f s after the peer went '
                 'silent at %s (stage timeout %.0f s + clean-up %.0f s); '
                 'blocked at %s' % (t1 - t_stall, stage, bound_stage, cleanup,
                                    world.blocked_report(4)),
                 kind=kind, stage=stage, pipelining=scn['pipelining'])
            return
        res = box['res']
        over = (t1 - t_stall) - (bound_stage + cleanup + 1.0)
        if over > 0:
            _bad(result, 'C14/attempt-held',
                 'the attempt returned %.1f s later than its timeouts allow '
                 '(%.1f s after the stall at %s; bound %.0f+%.0f s)' % (
                     over, t1 - t_stall, stage, bound_stage, cleanup),
                 kind=kind, stage=stage, what='late')
            return
        reported = res['whole']
        if res['per'] is not None:
            vals = list(res['per'].values()) if isinstance(res['per'], dict) \
                else list(res['per'])
            reported = 'temp' if 'temp' in vals else (
                'perm' if 'perm' in vals else 'ok')
        if stage in ('quit',) or len(attempts) > 1 and \
                attempts[-1]['tag'] == 'a1':
            continue            # the message had been accepted already
        if stage == 'starttls' and not rs.get('tls_required') and \
                shape != 'stall':
            continue
        if reported == 'ok' and stage == 'rset':
            continue
        if reported == 'ok' and shape == 'trickle':
            continue            # the trickled reply completed within the timeout
        if reported != 'temp' and not (stage == 'rset' and reported == 'perm'):
            _bad(result, 'C14/wrong-class',
                 'the peer went silent at %s and the attempt reported %r (%r) '
                 'instead of a transient failure' % (stage, reported, res),
                 kind=kind, stage=stage)


def _patch_tls_stall(ds, rs):
    """make the scripted server accept STARTTLS / the connection and then
    never perform the handshake"""
    listener = ds.listener
    orig = listener.make_server

    def make(k):
        srv = orig(k)
        sc = srv.script
        if sc.get('tls_immediately_stall'):
            def serve(sock, conn_n=0):
                from harness.smtppeer import Conn
                srv.conn = Conn(conn_n, srv.world.loop._now)
                srv.conn.stalled_at = ('tls', srv.world.loop._now)
                srv.world.fault('peer-stall')
                gevent.sleep(10 ** 7)
            srv.serve = serve
        elif sc.get('starttls') and sc['starttls'][0].get('no_handshake'):
            class _NoTLS(object):
                def wrap_socket(self, sock, **kw):
                    srv.conn.stalled_at = ('tls', srv.world.loop._now)
                    srv.world.fault('peer-stall')
                    gevent.sleep(10 ** 7)
            srv.tls_context = _NoTLS()
        return srv
    listener.make_server = make


def shrink_candidates(scn, clause):
    for k in ('reuse', 'pipelining'):
        if scn.get(k):
            c = dict(scn)
            c[k] = False
            yield c
    if scn.get('nr', 1) > 1:
        c = dict(scn)
        c['nr'] = 1
        yield c
    if scn.get('shape') not in ('stall', 'silent'):
        c = dict(scn)
        c['shape'] = 'stall' if scn['side'] == 'client' else 'silent'
        yield c
