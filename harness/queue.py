"""Queue harness: real slimta.queue.Queue over one real storage backend on its
fake substrate, with a scripted relay.  Produces an observation record that
the C01/C03/C12/C13 oracles judge.  Nothing here decides a verdict."""
from __future__ import annotations

import hashlib

import gevent

from sim import fs as simfs
from sim import fakeredis as simredis
from sim import cloud as simcloud
from sim.world import H

# import state is process-global state (e.g. importing slimta.queue.dict adds
# an attribute `dict` to the slimta.queue package): import everything up
# front so every world in a process sees the same modules.
import slimta.queue            # noqa
import slimta.queue.dict       # noqa
import slimta.queue.proxy      # noqa
import slimta.diskstorage      # noqa
import slimta.redisstorage     # noqa
import slimta.cloudstorage     # noqa
import slimta.bounce           # noqa
import slimta.relay            # noqa
import slimta.envelope         # noqa
import slimta.relay.pipe       # noqa

LAT_RELAY = (0.0, 0.0, 0.001, 0.01, 0.05, 0.3, 2.0)
BACKENDS = ('dict', 'disk', 'redis', 'cloud', 'cloud+mq')


def marker_of(envelope):
    try:
        h = envelope.headers
        if h is None:
            return None
        v = h.get('X-Sim-Msg')
        return int(v) if v is not None else None
    except Exception:
        return None


def make_envelope(m):
    from slimta.envelope import Envelope
    env = Envelope(m['sender'], list(m['rcpts']))
    body = bytes.fromhex(m['body']) if m.get('body') else b'hello\r\n'
    hdr = b'X-Sim-Msg: %d\r\nSubject: test %d\r\n' % (m['k'], m['k'])
    if m.get('hdr'):
        hdr += bytes.fromhex(m['hdr'])
    env.parse(hdr + b'\r\n' + body)
    env.receiver = 'queue.sim'
    env.client = {'name': 'client.sim', 'ip': '192.0.2.7'}
    return env


class ShelfLike(dict):
    """a mapping with the semantics of shelve.open(..., writeback=False):
    values are copied in on assignment and copied out on every look-up, so
    mutating a looked-up value changes nothing until it is assigned back"""

    def __getitem__(self, key):
        import copy
        return copy.deepcopy(dict.__getitem__(self, key))

    def __setitem__(self, key, value):
        import copy
        dict.__setitem__(self, key, copy.deepcopy(value))

    def get(self, key, default=None):
        return self[key] if key in self else default

    def items(self):
        return [(k, self[k]) for k in list(dict.keys(self))]

    def values(self):
        return [self[k] for k in list(dict.keys(self))]


class Substrate(object):
    """the durable thing under a backend (dict/fs/redis/objects)"""

    def __init__(self, world, scn, fs=None):
        self.world = world
        self.kind = scn['backend']
        lat = scn.get('store_lat')
        if self.kind == 'dict':
            self.env_db, self.meta_db = {}, {}
            if scn.get('dict_kind') == 'shelf':
                # "can be implemented as a shelve" (DictStorage docstring):
                # a mapping that hands out copies and keeps copies
                self.env_db, self.meta_db = ShelfLike(), ShelfLike()
        elif self.kind == 'disk':
            self.fs = fs or simfs.SimFS(world, latency=tuple(lat) if lat
                                        else simfs.LAT_DISK)
            for d in ('/q/env', '/q/meta', '/q/tmp'):
                self.fs.mkdir(d)
            if scn.get('short_writes'):
                self.fs.short_mod = int(scn['short_writes'])
                world.probe('short-writes')
            simfs.install(self.fs)
            import slimta.diskstorage as ds
            ds.AioFile.chunk_size = scn.get('chunk_size') or (16 << 10)
        elif self.kind == 'redis':
            self.redis = simredis.SimRedis(world, latency=tuple(lat) if lat
                                           else simredis.LAT_REDIS)
            self.prefix = scn.get('redis_prefix') or 'slimta:'
        else:
            self.objects = simcloud.SimObjectStore(
                world, latency=tuple(lat) if lat else simcloud.LAT_CLOUD)
            self.mq = None
            if self.kind == 'cloud+mq':
                self.mq = simcloud.SimMsgQueue(
                    world, latency=tuple(lat) if lat else simcloud.LAT_CLOUD,
                    poll_pause=scn.get('poll_pause', 1.0),
                    dup_every=scn.get('mq_dup_every', 0))

    def dump(self):
        """what is durably stored, read from the substrate directly (not
        through the storage code under test): id -> record"""
        import pickle
        import json
        out = {}

        def rec(env, ts, attempts, delivered):
            rc = list(env.recipients)
            for i in sorted(set(delivered or ()), reverse=True):
                if 0 <= i < len(rc):
                    del rc[i]
            return {'ts': ts, 'attempts': attempts, 'rcpts': rc,
                    'k': marker_of(env), 'sender': env.sender,
                    'delivered': sorted(delivered or ())}
        if self.kind == 'dict':
            for id, env in self.env_db.items():
                meta = self.meta_db.get(id)
                if meta is None:
                    continue
                out[id] = rec(env, meta['timestamp'], meta['attempts'], ())
        elif self.kind == 'disk':
            for p, b in self.fs.files.items():
                if p.startswith('/q/env/') and p.endswith('.env'):
                    id = p[len('/q/env/'):-4]
                    mp = '/q/meta/%s.meta' % id
                    try:
                        env = pickle.loads(bytes(b))
                        if mp not in self.fs.files:
                            out[id] = {'ts': None, 'nometa': True, 'rcpts': [],
                                       'k': marker_of(env)}
                            continue
                        meta = pickle.loads(bytes(self.fs.files[mp]))
                        out[id] = rec(env, meta['timestamp'],
                                      meta['attempts'],
                                      meta.get('delivered_indexes', ()))
                    except Exception as e:
                        out[id] = {'ts': None, 'corrupt': type(e).__name__,
                                   'rcpts': [], 'k': None}
        elif self.kind == 'redis':
            for key, h in self.redis.data.items():
                if not isinstance(h, dict) or b'envelope' not in h:
                    continue
                id = key.decode()[len(self.prefix):]
                dl = h.get(b'delivered_indexes')
                out[id] = rec(pickle.loads(h[b'envelope']),
                              float(h.get(b'timestamp', b'0')),
                              int(h.get(b'attempts', b'0')),
                              pickle.loads(dl) if dl else ())
        else:
            for id, o in self.objects.objects.items():
                m = o['meta']
                out[id] = rec(pickle.loads(o['body']),
                              json.loads(m['timestamp']),
                              json.loads(m['attempts']) if m['attempts'] else 0,
                              json.loads(m['delivered_indexes'])
                              if m['delivered_indexes'] else ())
        return out

    def new_storage(self):
        """a fresh real storage object over this substrate"""
        if self.kind == 'dict':
            from slimta.queue.dict import DictStorage
            return DictStorage(self.env_db, self.meta_db)
        if self.kind == 'disk':
            from slimta.diskstorage import DiskStorage
            return DiskStorage('/q/env', '/q/meta', '/q/tmp')
        if self.kind == 'redis':
            import slimta.redisstorage as rs
            sim = self.redis

            class _RedisModule(object):
                """what slimta.redisstorage sees as `redis` while the real
                constructor runs: the connection it makes is the simulated
                server"""
                @staticmethod
                def ConnectionPool(*a, **kw):
                    return None

                @staticmethod
                def StrictRedis(*a, **kw):
                    return sim
                Redis = StrictRedis
            real = rs.redis
            rs.redis = _RedisModule
            try:
                st = rs.RedisStorage(prefix=self.prefix)
            finally:
                rs.redis = real
            st.redis = sim
            return st
        from slimta.cloudstorage import CloudStorage
        return CloudStorage(self.objects, self.mq)


def observed_store_class():
    from slimta.queue import QueueStorage

    class ObservedStore(QueueStorage):
        """transparent recording proxy (adds no yields)"""

        def __init__(self, inner, obs, world, tag='s'):
            QueueStorage.__init__(self)
            self.inner = inner
            self.obs = obs
            self.world = world
            self.tag = tag
            self.fail_writes = ()     # markers whose write() is refused
            self.fail_ops = ()        # (op, n): the n-th call of op fails
            self.op_counts = {}

        def _rec(self, op, id, fn, *args):
            w = self.world
            t0 = w.loop._now
            rec = {'op': op, 'id': id, 't0': t0, 't1': None, 'args': None,
                   'ok': None, 'tag': self.tag, 's0': w.counter('attseq'),
                   's1': None}
            self.obs['store_ops'].append(rec)
            w.log('ST', self.tag, op, 'start')
            self.op_counts[op] = n_op = self.op_counts.get(op, 0) + 1
            if (op, n_op) in self.fail_ops:
                # scripted storage fault: this call fails, once
                def fn(*a):
                    from slimta.queue import QueueError
                    w.fault('store-%s-refused' % op)
                    raise QueueError('scripted %s failure' % op)
            try:
                r = fn(*args)
            except BaseException as e:
                rec['t1'] = w.loop._now
                rec['s1'] = w.counter('attseq')
                rec['ok'] = False
                rec['exc'] = type(e).__name__
                w.log('ST', self.tag, op, 'exc', type(e).__name__)
                raise
            rec['t1'] = w.loop._now
            rec['s1'] = w.counter('attseq')
            rec['ok'] = True
            w.log('ST', self.tag, op, 'end')
            return rec, r

        def write(self, envelope, timestamp):
            k = marker_of(envelope)
            fn = self.inner.write
            if k in self.fail_writes:
                # scripted storage fault: this one envelope cannot be written
                def fn(envelope, timestamp):
                    from slimta.queue import QueueError
                    self.world.fault('store-write-refused')
                    raise QueueError('scripted write failure')
            rec, r = self._rec('write', None, fn, envelope, timestamp)
            rec['id'] = r
            rec['args'] = timestamp
            rec['k'] = k
            rec['rcpts'] = list(envelope.recipients)
            rec['sender'] = envelope.sender
            self.obs['id_k'][_norm(r)] = k
            return r

        def set_timestamp(self, id, timestamp):
            rec, r = self._rec('set_timestamp', id, self.inner.set_timestamp,
                               id, timestamp)
            rec['args'] = timestamp
            return r

        def increment_attempts(self, id):
            rec, r = self._rec('increment_attempts', id,
                               self.inner.increment_attempts, id)
            rec['args'] = r
            return r

        def set_recipients_delivered(self, id, rcpt_indexes):
            rec, r = self._rec('set_recipients_delivered', id,
                               self.inner.set_recipients_delivered, id,
                               rcpt_indexes)
            rec['args'] = sorted(rcpt_indexes)
            return r

        def load(self):
            # as lazy as the backend's own listing: entries are handed over
            # one by one, the caller runs in between
            w = self.world
            rec = {'op': 'load', 'id': None, 't0': w.loop._now, 't1': None,
                   'args': [], 'ok': None, 'tag': self.tag,
                   's0': w.counter('attseq'), 's1': None}
            self.obs['store_ops'].append(rec)
            w.log('ST', self.tag, 'load', 'start')
            try:
                for entry in self.inner.load():
                    rec['args'].append((entry[0], _norm(entry[1])))
                    yield entry
            except GeneratorExit:
                raise
            except BaseException as e:
                rec['t1'] = w.loop._now
                rec['s1'] = w.counter('attseq')
                rec['ok'] = False
                rec['exc'] = type(e).__name__
                w.log('ST', self.tag, 'load', 'exc', type(e).__name__)
                raise
            rec['t1'] = w.loop._now
            rec['s1'] = w.counter('attseq')
            rec['ok'] = True
            w.log('ST', self.tag, 'load', 'end')

        def get(self, id):
            rec, r = self._rec('get', id, self.inner.get, id)
            rec['args'] = (list(r[0].recipients), r[1])
            return r

        def remove(self, id):
            rec, r = self._rec('remove', id, self.inner.remove, id)
            return r

        def wait(self):
            r = self.inner.wait()
            if r is None:
                return []
            out = []
            for entry in r:
                self.world.log('ST', self.tag, 'announce')
                self.obs['announces'].append(
                    (self.world.loop._now, _norm(entry[1])))
                self.world.probe('announcement')
                yield entry

        def get_info(self):
            return self.inner.get_info()

    return ObservedStore


def _norm(id):
    return id.decode('ascii') if isinstance(id, bytes) else id


def reply_for(verdict, variant):
    from slimta.smtp.reply import Reply
    if verdict == 'temp':
        r = Reply('450', '4.%d.0 temporary failure v%d' % (variant % 8,
                                                         variant))
    elif verdict == 'perm':
        r = Reply('550', '5.%d.0 permanent failure v%d' % (variant % 8,
                                                         variant))
    else:
        return Reply('250', '2.0.0 accepted v%d' % variant)
    # as a network relay would: the reply knows which host gave it
    # (odd variants), in either of the shapes relays use
    if variant % 2:
        r.address = ('mx%d.sim' % variant, 25) if variant % 4 == 1 \
            else 'mx%d.sim' % variant
        if variant % 8 == 5:
            # what getpeername() gives for an IPv6 peer
            r.address = ('2001:db8::%d' % variant, 25, 0, 0)
        r.command = b'RCPT' if variant % 4 == 1 else None
    return r


def script_relay_class():
    from slimta.relay import Relay, PermanentRelayError, TransientRelayError

    class ScriptRelay(Relay):
        def __init__(self, world, scn, obs, counts=None, bounces=0):
            Relay.__init__(self)
            self.world = world
            self.scn = scn
            self.obs = obs
            self.count = dict(counts or {})
            self.bounces = bounces

        def _spec(self, k, envelope):
            if k is None:
                b = self.bounces
                self.bounces += 1
                lst = self.scn.get('bounce_outcomes') or []
                return ('b', b), (lst[b] if b < len(lst) else {'t': 'none'})
            n = self.count.get(k, 0)
            self.count[k] = n + 1
            lst = (self.scn.get('outcomes') or {}).get(str(k)) or []
            return (k, n), (lst[n] if n < len(lst) else {'t': 'none'})

        def attempt(self, envelope, attempts):
            w = self.world
            k = marker_of(envelope)
            (mk, n), spec = self._spec(k, envelope)
            rcpts = list(envelope.recipients)
            try:
                hd, bd = envelope.flatten()
                content = hashlib.sha1(hd + bd).hexdigest()
            except Exception as e:
                content = 'unflattenable:%s' % type(e).__name__
            rec = {'k': mk, 'n': n, 'attempts_arg': attempts, 'rcpts': rcpts,
                   'content': content,
                   't0': w.loop._now, 't1': None, 'truth': None,
                   'start_seq': w.counter('attseq'), 'end_seq': None,
                   'shape': spec['t'], 'sender': envelope.sender,
                   'replies': {}}
            self.obs['attempts'].append(rec)
            w.log('ATT', str(mk), n, 'start', len(rcpts))
            lat = spec.get('lat', 0.0)
            if lat:
                gevent.sleep(lat)
            t = spec['t']
            truth = {}
            try:
                if t in ('none', 'reply'):
                    for r in rcpts:
                        truth[r] = 'ok'
                    return None if t == 'none' else reply_for('ok', 0)
                if t in ('temp', 'perm'):
                    for r in rcpts:
                        truth[r] = t
                    rp = reply_for(t, spec.get('v', 0))
                    rec['replies'] = {r: (rp.code, rp.message) for r in rcpts}
                    if t == 'temp':
                        raise TransientRelayError('scripted', rp)
                    raise PermanentRelayError('scripted', rp)
                if t == 'other':
                    for r in rcpts:
                        truth[r] = 'temp'     # must be retried
                    rec['replies'] = {r: ('450', None) for r in rcpts}
                    raise RuntimeError('scripted unexpected relay exception')
                # per-recipient mapping or sequence
                per = spec.get('r') or {}
                res = []
                for r in rcpts:
                    vd, var = per.get(r, ['ok', 0])
                    if vd == 'ok':
                        res.append(reply_for('ok', var))
                        truth[r] = 'ok'
                    elif vd == 'none':
                        res.append(None)
                        truth[r] = 'ok'
                    elif vd == 'temp':
                        rp = reply_for('temp', var)
                        res.append(TransientRelayError('scripted', rp))
                        truth[r] = 'temp'
                        rec['replies'][r] = (rp.code, rp.message)
                    else:
                        rp = reply_for('perm', var)
                        res.append(PermanentRelayError('scripted', rp))
                        truth[r] = 'perm'
                        rec['replies'][r] = (rp.code, rp.message)
                if t == 'seq':
                    # any sequence is a legal per-recipient result
                    return tuple(res) if spec.get('as') == 'tuple' else res
                pairs = list(zip(rcpts, res))
                # a mapping is keyed by recipient: its iteration order is
                # the relay's business (e.g. a relay that groups by domain)
                order = spec.get('order')
                if order == 'reverse':
                    pairs.reverse()
                elif order == 'domain':
                    pairs.sort(key=lambda p: (p[0].rsplit('@', 1)[-1], p[0]))
                elif order == 'rotate' and len(pairs) > 1:
                    pairs = pairs[1:] + pairs[:1]
                if order:
                    w.probe('mapping-in-other-order')
                return dict(pairs)
            finally:
                rec['truth'] = truth
                rec['t1'] = w.loop._now
                rec['end_seq'] = w.counter('attseq')
                w.log('ATT', str(mk), n, 'end')

    return ScriptRelay


def pipe_relay(world, scn, obs):
    """real PipeRelay (per-recipient or not) over a fake subprocess module
    whose exit status / output come from the same outcome table as
    ScriptRelay; an observing subclass records attempts and ground truth"""
    import re
    import slimta.relay.pipe as pmod
    state = {'count': {}, 'bounces': 0, 'cur': {}}
    mark = re.compile(br'^X-Sim-Msg: (\d+)\r?$', re.M)

    class FakeProc(object):
        def __init__(self, args):
            self.args = list(args)
            self.returncode = None
            self.pid = 4243

        def communicate(self, stdin=None):
            m = mark.search(stdin or b'')
            # a bounce embeds the original's marker in its body: tell them
            # apart by the top-level header block
            head = (stdin or b'').split(b'\r\n\r\n', 1)[0]
            mk = int(m.group(1)) if m and mark.search(head) else None
            rec = state['cur'].get(mk if mk is not None else 'b')
            rcpt = None
            for a in self.args:
                if rec is not None and a in rec['rcpts']:
                    rcpt = a
            if rcpt is None and rec is not None:
                rcpt = rec['rcpts'][0]
            spec = rec['spec'] if rec is not None else {'t': 'none'}
            t = spec['t']
            if t in ('map', 'seq'):
                vd = (spec.get('r') or {}).get(rcpt, ['ok', 0])
                verdict, var = vd[0], vd[1]
                if verdict == 'none':
                    verdict = 'ok'
            elif t in ('temp', 'other'):
                verdict, var = 'temp', spec.get('v', 0)
            elif t == 'perm':
                verdict, var = 'perm', spec.get('v', 0)
            else:
                verdict, var = 'ok', 0
            lat = spec.get('lat', 0.0)
            if lat:
                gevent.sleep(lat)
            if verdict == 'temp' and var == 1 and rec is not None and \
                    rec['n'] % 2 == 0:
                # this delivery program never finishes: the relay's timeout
                # ends the attempt for this recipient and those not tried yet
                world.fault('subprocess-hang')
                rec['hung'] = True
                gevent.sleep(10 ** 7)
            if rec is not None:
                rec['truth'][rcpt] = verdict
            if verdict == 'ok':
                self.returncode = 0
                return b'', b''
            self.returncode = 75 if verdict == 'temp' else 1
            if verdict == 'temp' and var == 2:
                self.returncode = -9       # killed by a signal
            txt = ('4.%d.0 temporary failure v%d' if verdict == 'temp' else
                   '5.%d.0 permanent failure v%d') % (var % 8, var)
            if rec is not None:
                rec['replies'][rcpt] = ('450' if verdict == 'temp' else '550',
                                        txt)
            return b'', (txt + '\n').encode()

    class FakeSubprocess(object):
        PIPE = -1

        def Popen(self, args, **kw):
            return FakeProc(args)

    pmod.subprocess = FakeSubprocess()

    class ObsPipe(pmod.PipeRelay):
        per_recipient = scn.get('relay') != 'pipe1'

        def attempt(self, envelope, attempts):
            w = world
            k = marker_of(envelope)
            if k is None:
                b = state['bounces']
                state['bounces'] += 1
                lst = scn.get('bounce_outcomes') or []
                mk, n = ('b', b), b
                spec = lst[b] if b < len(lst) else {'t': 'none'}
                key = 'b'
            else:
                n = state['count'].get(k, 0)
                state['count'][k] = n + 1
                lst = (scn.get('outcomes') or {}).get(str(k)) or []
                spec = lst[n] if n < len(lst) else {'t': 'none'}
                mk, key = k, k
            try:
                hd, bd = envelope.flatten()
                content = hashlib.sha1(hd + bd).hexdigest()
            except Exception as e:
                content = 'unflattenable:%s' % type(e).__name__
            rec = {'k': mk, 'n': n, 'attempts_arg': attempts,
                   'rcpts': list(envelope.recipients), 'content': content,
                   't0': w.loop._now, 't1': None, 'truth': {},
                   'start_seq': w.counter('attseq'), 'end_seq': None,
                   'shape': 'map' if self.per_recipient else spec['t'],
                   'sender': envelope.sender, 'replies': {}, 'spec': spec}
            if not self.per_recipient and spec['t'] in ('map', 'seq'):
                rec['shape'] = 'temp'
            obs['attempts'].append(rec)
            state['cur'][key] = rec
            w.log('ATT', str(mk), n, 'start', len(rec['rcpts']))
            try:
                return pmod.PipeRelay.attempt(self, envelope, attempts)
            finally:
                if self.per_recipient:
                    # whoever had not been settled when the relay's timeout
                    # fired (a hanging process, or several slow ones)
                    for r in rec['rcpts']:
                        if r not in rec['truth']:
                            rec['truth'][r] = 'temp'
                            rec['replies'][r] = ('450',
                                                 '4.4.2 Delivery timed out')
                if not self.per_recipient:
                    # one process decides for the whole message
                    v0 = rec['truth'].get(rec['rcpts'][0], 'ok')
                    rp = rec['replies'].get(rec['rcpts'][0])
                    for r in rec['rcpts']:
                        rec['truth'][r] = v0
                        if rp:
                            rec['replies'][r] = rp
                    rec['shape'] = {'ok': 'none', 'temp': 'temp',
                                    'perm': 'perm'}[v0]
                rec['t1'] = w.loop._now
                rec['end_seq'] = w.counter('attseq')
                w.log('ATT', str(mk), n, 'end')

    return ObsPipe(['deliver', '-f', '{sender}', '-d', '{recipient}'],
                   timeout=7.0)


def smtp_relay(world, scn, obs):
    """real StaticSmtpRelay / StaticLmtpRelay (pool, SmtpRelayClient, Client)
    against the scripted SMTP server; the outcome table is translated into
    per-message server scripts.  An observing subclass records attempts; the
    ground truth is what the server accepted."""
    from harness import relay as hrelay
    from harness.smtppeer import ScriptedServer, Listener
    from sim.tls import SimTLSContext
    from sim import net
    hrelay.install_seams()
    lmtp = scn['relay'] == 'lmtp'
    tx = {}
    for k, lst in (scn.get('outcomes') or {}).items():
        tag = 'm%s' % k
        sc = {'mail': [], 'data': [], 'eod': [], 'rcpt_by_addr': {}}
        for spec in lst:
            t = spec['t']
            mail, data, eod = {}, {}, {}
            if spec.get('lat'):
                data = {'delay': spec['lat']}
            if t == 'temp':
                eod = {'code': '451'}
            elif t == 'perm':
                eod = {'code': '554'}
            elif t == 'other':
                data = {'act': 'disconnect'}
            sc['mail'].append(mail)
            sc['data'].append(data)
            sc['eod'].append(eod)
        # per-recipient verdicts by occurrence of the address
        for spec in lst:
            if spec['t'] in ('map', 'seq'):
                for r, (vd, var) in (spec.get('r') or {}).items():
                    sc['rcpt_by_addr'].setdefault(r, []).append(
                        {'temp': {'code': '450'}, 'perm': {'code': '550'}}.get(
                            vd, {}))
            else:
                for r in set(x for sp in lst for x in (sp.get('r') or {})):
                    sc['rcpt_by_addr'].setdefault(r, []).append({})
        tx[tag] = sc
    servers = []

    def make_server(kk):
        srv = ScriptedServer(world, {}, lmtp=lmtp,
                             extensions=['8BITMIME', 'PIPELINING']
                             if scn.get('relay_pipelining', True)
                             else ['8BITMIME'], tx_scripts=tx,
                             label='mx%d' % kk)
        servers.append(srv)
        return srv
    listener = Listener(world, make_server, label='mx',
                        client_opts={'latency': net.LAT_SMALL},
                        server_opts={'latency': net.LAT_SMALL})
    if lmtp:
        from slimta.relay.smtp.static import StaticLmtpRelay as Base
    else:
        from slimta.relay.smtp.static import StaticSmtpRelay as Base
    state = {'count': {}, 'bounces': 0}

    class ObsSmtp(Base):
        def attempt(self, envelope, attempts):
            w = world
            k = marker_of(envelope)
            if k is None:
                mk, n = ('b', state['bounces']), state['bounces']
                state['bounces'] += 1
                shape = 'none'
            else:
                n = state['count'].get(k, 0)
                state['count'][k] = n + 1
                lst = (scn.get('outcomes') or {}).get(str(k)) or []
                shape = lst[n]['t'] if n < len(lst) else 'none'
                mk = k
            try:
                hd, bd = envelope.flatten()
                content = hashlib.sha1(hd + bd).hexdigest()
            except Exception as e:
                content = 'unflattenable:%s' % type(e).__name__
            rec = {'k': mk, 'n': n, 'attempts_arg': attempts,
                   'rcpts': list(envelope.recipients), 'content': content,
                   't0': w.loop._now, 't1': None, 'truth': {},
                   'start_seq': w.counter('attseq'), 'end_seq': None,
                   'shape': 'map' if shape in ('map', 'seq') else shape,
                   'sender': envelope.sender, 'replies': {}}
            obs['attempts'].append(rec)
            w.log('ATT', str(mk), n, 'start', len(rec['rcpts']))
            before = sum(len(s.conn.transactions) for s in servers
                         if s.conn is not None)
            try:
                return Base.attempt(self, envelope, attempts)
            finally:
                # ground truth from the server side: the transaction(s) of
                # this message seen since the attempt began
                trs = []
                for srv in servers:
                    if srv.conn is None:
                        continue
                    for tr in srv.conn.transactions:
                        if tr.get('tag') == ('m%s' % k if k is not None
                                             else None) and \
                                tr['t'] >= rec['t0'] and not tr.get('_seen'):
                            tr['_seen'] = True
                            trs.append(tr)
                acc = {}
                for tr in trs:
                    codes = tr.get('eod') or []
                    for i, r in enumerate(tr['rcpts']):
                        c = codes[i] if lmtp and i < len(codes) else (
                            codes[0] if codes else None)
                        acc[r] = c
                    for r, code in tr['all_rcpts']:
                        if code[0] != '2':
                            acc[r] = code
                for r in rec['rcpts']:
                    c = acc.get(r)
                    if c is not None and c[0] == '2':
                        rec['truth'][r] = 'ok'
                    elif c is not None and c[0] == '5':
                        rec['truth'][r] = 'perm'
                        rec['replies'][r] = (c, None)
                    else:
                        rec['truth'][r] = 'temp'
                        rec['replies'][r] = (c or '4xx', None)
                vals = set(rec['truth'].values())
                if rec['shape'] != 'map':
                    rec['shape'] = 'none' if vals == {'ok'} else (
                        'perm' if vals == {'perm'} else (
                            'temp' if vals == {'temp'} else 'map'))
                rec['t1'] = w.loop._now
                rec['end_seq'] = w.counter('attseq')
                w.log('ATT', str(mk), n, 'end')

    return ObsSmtp('mx.sim', 25 if not lmtp else 24,
                   pool_size=scn.get('relay_pool_size'),
                   socket_creator=listener.connect, ehlo_as='relay.sim',
                   context=SimTLSContext(), connect_timeout=10.0,
                   command_timeout=20.0, data_timeout=30.0,
                   idle_timeout=scn.get('relay_idle'))


def obs_queue_class():
    from slimta.queue import Queue

    class ObsQueue(Queue):
        """records enqueue calls/returns and flush calls; no behaviour change"""
        obs = None
        world = None
        role = 'main'

        def enqueue(self, envelope):
            from slimta.bounce import Bounce
            w = self.world
            isb = isinstance(envelope, Bounce)
            rec = None
            if isb:
                hdr, body = envelope.flatten()
                rec = {'t': w.loop._now, 'sender': envelope.sender,
                       'rcpts': list(envelope.recipients), 'hdr': hdr,
                       'body': body, 'queue': self.role, 'ids': None}
                self.obs['bounces'].append(rec)
                w.log('BOUNCE', self.role, len(envelope.recipients))
            r = Queue.enqueue(self, envelope)
            if rec is not None:
                rec['ids'] = [_norm(i) if not isinstance(i, BaseException)
                              else 'ERR' for _, i in r]
            return r

    return ObsQueue


def tag_policy_class():
    from slimta.policy import QueuePolicy

    class TagPolicy(QueuePolicy):
        """harness-provided queue policy placed behind RecipientSplit: gives
        every single-recipient copy its own X-Sim-Msg marker
        (100*(k+1)+index of the recipient), so that each stored envelope is a
        message of its own for the oracles"""

        def __init__(self, parents):
            self.parents = parents      # k -> original recipient list

        def apply(self, envelope):
            k = marker_of(envelope)
            if k in self.parents and len(envelope.recipients) == 1:
                j = self.parents[k].index(envelope.recipients[0])
                del envelope.headers['X-Sim-Msg']
                envelope.headers['X-Sim-Msg'] = str(100 * (k + 1) + j)

    return TagPolicy


def new_obs():
    return {'store_ops': [], 'attempts': [], 'bounces': [], 'announces': [],
            'id_k': {}, 'accepted': {}, 'flushes': [], 'enqueue_errors': [],
            'final': None, 'internals': None}


def build(world, scn, obs, fs=None, counts=None, bounces=0):
    """returns dict(queue, bounce_queue, store, relay, substrate)"""
    sub = Substrate(world, scn, fs=fs)
    OS = observed_store_class()
    store = OS(sub.new_storage(), obs, world, 's')
    store.fail_writes = tuple(scn.get('write_fail') or ())
    store.fail_ops = tuple((o, n) for o, n in scn.get('store_faults') or ())
    if scn.get('relay') in ('smtp', 'lmtp'):
        world.probe('relay:' + scn['relay'])
        relay = smtp_relay(world, scn, obs)
    elif scn.get('relay') in ('pipe', 'pipe1'):
        world.probe('relay:' + scn['relay'])
        relay = pipe_relay(world, scn, obs)
    else:
        relay = script_relay_class()(world, scn, obs, counts=counts,
                                     bounces=bounces)
    Q = obs_queue_class()
    table = scn['backoff']

    def backoff(envelope, attempts):
        i = attempts - 1
        if 0 <= i < len(table):
            return table[i]
        return None

    def bounce_factory(envelope, reply, *a, **kw):
        from slimta.bounce import Bounce
        nn = scn.get('bounce_none') or []
        k = world.counter('bounce_factory')
        if k in nn:
            world.probe('bounce-factory-none')
            return None
        if scn.get('bounce_headers_only'):
            return Bounce(envelope, reply, headers_only=True)
        return Bounce(envelope, reply)

    bq = None
    if scn.get('bounce_queue') == 'separate':
        sub2 = Substrate(world, dict(scn, backend='dict'))
        bstore = OS(sub2.new_storage(), obs, world, 'b')
        bq = Q(bstore, relay, backoff=backoff)
        bq.obs, bq.world, bq.role = obs, world, 'bounce'
    q = Q(store, relay, backoff=backoff,
          bounce_factory=bounce_factory if (scn.get('bounce_none') or
                                            scn.get('bounce_headers_only'))
          else None,
          bounce_queue=bq, store_pool=scn.get('store_pool'),
          relay_pool=scn.get('relay_pool'))
    q.obs, q.world, q.role = obs, world, 'main'
    parents = {m['k']: list(m['rcpts']) for m in scn['messages']
               if m.get('split')}
    if parents:
        from slimta.policy.split import RecipientSplit
        q.add_policy(RecipientSplit())
        q.add_policy(tag_policy_class()(parents))
        world.probe('split-policy')
    return {'queue': q, 'bounce_queue': bq, 'store': store, 'relay': relay,
            'sub': sub, 'OS': OS, 'Q': Q, 'backoff': backoff}


def run(world, scn):
    """drive the scenario; returns obs"""
    obs = new_obs()
    sysm = build(world, scn, obs)
    q = sysm['queue']
    sub = sysm['sub']
    msgs = {m['k']: m for m in scn['messages']}

    # --- messages present in storage before the queue starts
    pre = [m for m in scn['messages'] if m.get('how') == 'preload']
    if pre:
        def preload():
            st = sysm['OS'](sub.new_storage(), obs, world, 'p')
            for m in pre:
                env = make_envelope(m)
                ts = world.loop._now + m.get('due_in', 0.0)
                id = st.write(env, ts)
                obs['accepted'][m['k']] = {'id': _norm(id),
                                           't': world.loop._now,
                                           'how': 'preload', 'due': ts}
        g = gevent.spawn(preload)
        world.wait(g, 60.0)
        # drain any announcements the preload produced?  no: they are part of
        # the history (redis list / message queue persist).
    q.start()
    if sysm['bounce_queue'] is not None:
        sysm['bounce_queue'].start()

    edge_q = None

    def do_enqueue(m):
        env = make_envelope(m)
        target = q
        nonlocal edge_q
        if m.get('how') == 'announce':
            if edge_q is None:
                st = sysm['OS'](sub.new_storage(), obs, world, 'e')
                edge_q = sysm['Q'](st, None)
                edge_q.obs, edge_q.world, edge_q.role = obs, world, 'edge'
            target = edge_q
        world.log('ENQ', m['k'], 'call')
        try:
            res = target.enqueue(env)
        except BaseException as e:
            obs['enqueue_errors'].append((m['k'], type(e).__name__, str(e)))
            world.log('ENQ', m['k'], 'raised', type(e).__name__)
            raise
        for e2, id in res:
            if isinstance(id, BaseException):
                obs['enqueue_errors'].append((m['k'], type(id).__name__,
                                              str(id)))
            else:
                kk = marker_of(e2)
                obs['accepted'][kk if kk is not None else m['k']] = {
                    'id': _norm(id), 't': world.loop._now,
                    'how': m.get('how', 'enqueue')}
        world.log('ENQ', m['k'], 'returned')

    def do_flush(i):
        rec = {'t0': world.loop._now, 't1': None,
               's0': world.counter('attseq'), 's1': None}
        obs['flushes'].append(rec)
        world.log('FLUSH', i, 'call')
        q.flush()
        rec['t1'] = world.loop._now
        rec['s1'] = world.counter('attseq')
        world.log('FLUSH', i, 'returned')

    drivers = []
    for m in scn['messages']:
        if m.get('how') in ('preload', 'sub'):
            continue
        drivers.append(gevent.spawn_later(m.get('at', 0.0), do_enqueue, m))
    for i, op in enumerate(scn.get('ops') or []):
        if op['op'] == 'flush':
            drivers.append(gevent.spawn_later(op['at'], do_flush, i))
    status = world.run_for(scn['horizon'])
    obs['status'] = status
    obs['t_end'] = world.loop._now
    # --- quiescent inspection
    # (diagnostics only - no verdict depends on the queue's private attributes)
    def _peek(name, pairs=False):
        try:
            v = getattr(q, name)
            return [(ts, _norm(i)) for ts, i in v] if pairs else \
                sorted(_norm(i) for i in v)
        except Exception:
            return []
    obs['internals'] = {
        'queued': _peek('queued', True),
        'queued_ids': _peek('queued_ids'),
        'active_ids': _peek('active_ids'),
        'drivers_pending': sum(1 for d in drivers if not d.dead),
    }
    try:
        obs['final'] = sub.dump()
    except Exception as e:
        obs['final'] = None
        obs['final_error'] = '%s: %s' % (type(e).__name__, e)
    return obs
