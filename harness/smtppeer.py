"""Scripted downstream SMTP/LMTP server speaking over a SimSocket.

One instance serves one connection (a greenlet).  Behaviour comes from a
script: per stage a list of actions consumed in order (last one repeats).
It keeps its own ground-truth log of what it positively accepted."""
from __future__ import annotations

import gevent

from sim.tls import SimTLSContext

DEFAULT_CODES = {'banner': '220', 'ehlo': '250', 'helo': '250', 'lhlo': '250',
                 'starttls': '220', 'auth': '235', 'mail': '250',
                 'rcpt': '250', 'data': '354', 'eod': '250', 'rset': '250',
                 'quit': '221', 'noop': '250', 'other': '500'}


class Conn(object):
    """ground truth of one downstream connection"""

    def __init__(self, n, t):
        self.n = n
        self.t_open = t
        self.t_close = None
        self.commands = []        # (time, verb, arg)
        self.transactions = []    # dict(sender, rcpts(list accepted), ...)
        self.cur = None
        self.stalled_at = None
        self.closed_by = None


class ScriptedServer(object):
    TX_STAGES = ('mail', 'rcpt', 'data', 'eod', 'rset')

    def __init__(self, world, script, lmtp=False, extensions=None,
                 tls_context=None, label='peer', tx_scripts=None):
        self.world = world
        self.script = script or {}
        self.tx_scripts = tx_scripts or {}
        self.tag = None
        self.tx_counters = {}
        self.lmtp = lmtp
        self.extensions = list(extensions if extensions is not None else
                               ['PIPELINING', '8BITMIME', 'ENHANCEDSTATUSCODES'])
        self.tls_context = tls_context
        self.label = label
        self.counters = {}
        self.conn = None

    # ---- script access
    def action(self, stage):
        if stage in self.TX_STAGES and self.tag in self.tx_scripts:
            lst = self.tx_scripts[self.tag].get(stage)
            if not lst:
                return {}
            key = (self.tag, stage)
            n = self.tx_counters.get(key, 0)
            self.tx_counters[key] = n + 1
            return lst[n] if n < len(lst) else lst[-1]
        lst = self.script.get(stage)
        if not lst:
            return {}
        n = self.counters.get(stage, 0)
        self.counters[stage] = n + 1
        return lst[n] if n < len(lst) else lst[-1]

    # ---- io helpers
    def _readline(self):
        idle = self.script.get('idle_421')
        while b'\n' not in self.buf:
            try:
                if idle and self.conn.cur is None:
                    # server-side idle timeout: unsolicited 421, then close
                    with gevent.Timeout(idle, False):
                        d = self.sock.recv(4096)
                        idle = None
                    if idle and self.script.get('idle_partial'):
                        # start of an unsolicited line, never finished
                        self.world.fault('peer-partial-reply')
                        self.world.log('STALL', self.label, 'idle-partial')
                        self.conn.stalled_at = ('idle', self.world.loop._now)
                        self._send(b'421 4.4.2 Idle ti')
                        gevent.sleep(10 ** 7)
                        return None
                    if idle:
                        self.world.fault('server-idle-421')
                        self.world.log('IDLE421', self.label)
                        self._send(b'421 4.4.2 idle too long, closing\r\n')
                        self.conn.closed_by = 'idle'
                        return None
                    idle = self.script.get('idle_421')
                else:
                    d = self.sock.recv(4096)
            except OSError:
                return None
            if not d:
                return None
            self.buf += d
        line, self.buf = self.buf.split(b'\n', 1)
        return line.rstrip(b'\r')

    def _send(self, data):
        try:
            self.sock.sendall(data)
            return True
        except OSError:
            return False

    def reply_bytes(self, stage, act, extra_lines=None):
        code = str(act.get('code') or DEFAULT_CODES.get(stage, '250'))
        shape = act.get('shape')
        if shape == 'garbage':
            return b'this is not an smtp reply\r\n'
        if shape == 'badcode':
            return b'999 out of range\r\n'
        if shape == 'badutf8':
            return code.encode() + b' bad \xff\xfe bytes\r\n'
        if shape == 'mixed':
            return code.encode() + b'-first\r\n' + b'299 second\r\n'
        lines = list(act.get('lines') or ['%s %s' % (stage, act.get('text',
                                                                   'ok'))])
        if extra_lines:
            lines = [lines[0]] + list(extra_lines)
        out = b''
        for i, l in enumerate(lines):
            sep = b'-' if i < len(lines) - 1 else b' '
            out += code.encode() + sep + l.encode('utf-8') + b'\r\n'
        return out

    def _do(self, stage, act, extra_lines=None):
        """perform the scripted action for a stage; returns the code sent or
        None when the connection ended / stalled"""
        w = self.world
        kind = act.get('act', 'reply')
        c = self.conn
        if act.get('delay'):
            gevent.sleep(act['delay'])
        if kind == 'disconnect':
            c.closed_by = stage
            w.fault('peer-disconnect')
            self.sock.close()
            return None
        if kind == 'rst':
            c.closed_by = stage
            w.fault('peer-rst')
            self.sock.reset()
            return None
        if kind == 'stall':
            c.stalled_at = (stage, w.loop._now)
            w.fault('peer-stall')
            w.log('STALL', self.label, stage)
            gevent.sleep(act.get('for', 10 ** 7))
            if act.get('for') is None:
                return None
        data = self.reply_bytes(stage, act, extra_lines)
        if kind == 'partial':
            # never finishes the reply line
            c.stalled_at = (stage, w.loop._now)
            w.fault('peer-partial-reply')
            w.log('STALL', self.label, stage, 'partial')
            self._send(data[:max(1, len(data) // 2)])
            gevent.sleep(10 ** 7)
            return None
        if kind == 'trickle':
            c.stalled_at = (stage, w.loop._now)
            w.fault('peer-trickle')
            w.log('STALL', self.label, stage, 'trickle')
            gap = act.get('gap', 1.0)
            for i in range(len(data)):
                if not self._send(data[i:i + 1]):
                    return None
                gevent.sleep(gap)
            return str(act.get('code') or DEFAULT_CODES.get(stage, '250'))
        if not self._send(data):
            return None
        if act.get('shape') in ('garbage', 'badcode', 'badutf8', 'mixed'):
            w.fault('peer-malformed-reply')
            return 'malformed'
        return str(act.get('code') or DEFAULT_CODES.get(stage, '250'))

    # ---- main
    def serve(self, sock, conn_n=0):
        w = self.world
        self.sock = sock
        self.buf = b''
        c = self.conn = Conn(conn_n, w.loop._now)
        try:
            self._serve()
        finally:
            c.t_close = w.loop._now
            try:
                self.sock.close()
            except Exception:
                pass
            w.log('PEERCLOSE', self.label, conn_n)

    def _serve(self):
        w = self.world
        c = self.conn
        if self.script.get('tls_immediately') and self.tls_context:
            try:
                self.sock = self.tls_context.wrap_socket(self.sock,
                                                         server_side=True)
            except Exception:
                return
        code = self._do('banner', self.action('banner'))
        if code is None or code in ('421', '221') or code[0] in '45':
            if code is not None and code != 'malformed' and code[0] in '45':
                # stay connected; a client may QUIT
                pass
            elif code is None:
                return
        while True:
            line = self._readline()
            if line is None:
                return
            verb, _, arg = line.partition(b' ')
            verb = verb.upper()
            c.commands.append((w.loop._now, verb, arg))
            w.log('PEERCMD', self.label, c.n, verb.decode('latin1')[:10])
            if verb in (b'EHLO', b'LHLO', b'HELO'):
                stage = verb.decode().lower()
                act = self.action(stage)
                ext = None
                if verb != b'HELO' and str(act.get('code') or '250') == '250':
                    ext = list(self.extensions)
                    if self.tls_context and not getattr(self, 'tls_on', False) \
                            and 'STARTTLS' not in ext and \
                            self.script.get('offer_starttls'):
                        ext.append('STARTTLS')
                if self._do(stage, act, ext) is None:
                    return
                c.cur = None
            elif verb == b'STARTTLS' and not self.tls_context:
                if not self._send(b'502 5.5.1 STARTTLS not offered\r\n'):
                    return
            elif verb == b'STARTTLS':
                act = self.action('starttls')
                code = self._do('starttls', act)
                if code is None:
                    return
                if code == '220' and self.tls_context:
                    try:
                        self.sock = self.tls_context.wrap_socket(
                            self.sock, server_side=True)
                        self.buf = b''
                        self.tls_on = True
                    except Exception:
                        return
            elif verb == b'AUTH':
                if self._do('auth', self.action('auth')) is None:
                    return
            elif verb == b'MAIL':
                a0 = arg.find(b'<')
                a1 = arg.find(b'@')
                self.tag = arg[a0 + 1:a1].decode('latin1') if 0 <= a0 < a1 \
                    else None
                act = self.action('mail')
                code = self._do('mail', act)
                if code is None:
                    return
                if code[0] != '2':
                    c.commands.append((w.loop._now, b'*FAILED', b'mail'))
                if code[0] == '2':
                    c.cur = {'mail': arg, 'tag': self.tag, 'rcpts': [],
                             'all_rcpts': [],
                             'data': None, 'content': None, 'eod': None,
                             'reset_before': True, 't': w.loop._now}
                    c.transactions.append(c.cur)
            elif verb == b'RCPT':
                by_addr = (self.tx_scripts.get(self.tag) or {}).get(
                    'rcpt_by_addr')
                if by_addr is not None:
                    a0 = arg[arg.find(b'<') + 1:arg.rfind(b'>')].decode(
                        'utf-8', 'replace')
                    lst = by_addr.get(a0) or [{}]
                    key = (self.tag, 'rcpt', a0)
                    n = self.tx_counters.get(key, 0)
                    self.tx_counters[key] = n + 1
                    act = lst[n] if n < len(lst) else lst[-1]
                else:
                    act = self.action('rcpt')
                code = self._do('rcpt', act)
                if code is None:
                    return
                addr = arg[arg.find(b'<') + 1:arg.rfind(b'>')].decode(
                    'utf-8', 'replace')
                if c.cur is not None:
                    c.cur['all_rcpts'].append((addr, code))
                    if code[0] == '2':
                        c.cur['rcpts'].append(addr)
            elif verb == b'DATA':
                act = self.action('data')
                if not act and (c.cur is None or not c.cur['rcpts']):
                    # like a real server: no valid recipients, no data
                    act = {'code': '554', 'text': 'no valid recipients'}
                code = self._do('data', act)
                if code is None:
                    return
                if code != '354':
                    c.commands.append((w.loop._now, b'*FAILED', b'data'))
                if code == '354':
                    content = self._read_content()
                    if content is None:
                        return
                    if c.cur is not None:
                        c.cur['data'] = '354'
                        c.cur['content'] = content
                    n = 1
                    if self.lmtp:
                        n = len(c.cur['rcpts']) if c.cur is not None else 0
                    codes = []
                    for i in range(n):
                        act2 = self.action('eod')
                        code2 = self._do('eod', act2)
                        if code2 is None:
                            if c.cur is not None:
                                c.cur['eod'] = codes
                            return
                        codes.append(code2)
                    if c.cur is not None:
                        c.cur['eod'] = codes
                        c.cur['done'] = True
                    c.commands.append((
                        w.loop._now, b'*DONE' if any(
                            x[0] == '2' for x in codes) else b'*FAILED',
                        b'eod'))
                    c.cur = None
            elif verb == b'RSET':
                if self._do('rset', self.action('rset')) is None:
                    return
                c.cur = None
            elif verb == b'QUIT':
                self._do('quit', self.action('quit'))
                return
            elif verb == b'NOOP':
                if self._do('noop', self.action('noop')) is None:
                    return
            else:
                if self._do('other', self.action('other')) is None:
                    return

    def _read_content(self):
        """until CRLF.CRLF (or a lone-dot first line)"""
        lines = []
        while True:
            line = self._readline()
            if line is None:
                return None
            if line == b'.':
                break
            if line[:1] == b'.':
                line = line[1:]
            lines.append(line)
        return b''.join(l + b'\r\n' for l in lines)


class Listener(object):
    """what relay clients get from socket_creator(address)"""

    def __init__(self, world, make_server, connect_plan=None, label='net',
                 client_opts=None, server_opts=None):
        self.world = world
        self.make_server = make_server      # fn(conn_n) -> ScriptedServer
        self.connect_plan = connect_plan or []
        self.conns = []
        self.servers = []
        self.open = 0
        self.max_open = 0
        self.label = label
        self.client_opts = client_opts
        self.server_opts = server_opts
        self.greenlets = []
        self.client_socks = []
        self.max_live = 0

    def live(self):
        return sum(1 for s in self.client_socks if not s.closed)

    def connect(self, address, *a, **kw):
        from sim import net
        w = self.world
        n = len(self.conns) + sum(1 for _ in ())
        k = w.counter('connect:' + self.label)
        plan = self.connect_plan[k] if k < len(self.connect_plan) else {}
        w.log('CONNECT', self.label, k, plan.get('act', 'ok'))
        if plan.get('delay'):
            gevent.sleep(plan['delay'])
        if plan.get('act') == 'refuse':
            w.fault('connect-refused')
            raise ConnectionRefusedError(111, 'Connection refused')
        if plan.get('act') == 'hang':
            w.fault('connect-hang')
            gevent.sleep(10 ** 7)
        if plan.get('act') == 'timeout':
            import socket
            w.fault('connect-timeout')
            raise socket.timeout('timed out')
        a_, b_ = net.socketpair(w, self.label, a_opts=self.client_opts,
                                b_opts=self.server_opts,
                                b_addr=tuple(address) if isinstance(
                                    address, (tuple, list)) else ('10.0.0.1',
                                                                  25))
        self.client_socks.append(a_)
        self.max_live = max(self.max_live, self.live())
        srv = self.make_server(k)
        self.servers.append(srv)
        self.open += 1
        self.max_open = max(self.max_open, self.open)

        def run():
            try:
                srv.serve(b_, k)
            finally:
                self.open -= 1
                self.conns.append(srv.conn)
        self.greenlets.append(gevent.spawn(run))
        return a_
