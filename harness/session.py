"""Server-side session harness: the real SmtpEdge.handle (real Server + real
SmtpSession) on a SimSocket, with recording validators and a capturing queue.
Used by C07, C08, C09, C14 (server side)."""
from __future__ import annotations

import gevent

from sim import net
from sim.tls import SimTLSContext, install_tls_seam


def _imports():
    from slimta.edge.smtp import SmtpEdge, SmtpSession, SmtpValidators
    from slimta.queue import QueueError
    from slimta.smtp.reply import Reply
    return SmtpEdge, SmtpSession, SmtpValidators, QueueError, Reply


class PtrShim(object):
    """stands in for the `socket` module inside slimta.util.ptrlookup"""

    class herror(OSError):
        pass

    class gaierror(OSError):
        pass

    def __init__(self):
        self.latency = 0.0
        self.answer = None

    def gethostbyaddr(self, ip):
        gevent.sleep(self.latency)
        if self.answer is None:
            raise self.herror(1, 'Unknown host')
        return (self.answer, [], [ip])


PTR = PtrShim()


def install_seams():
    install_tls_seam()
    import slimta.util.ptrlookup as pl
    pl.socket = PTR


class Trace(object):
    """callback trace of one session"""

    def __init__(self, world, tag):
        self.world = world
        self.tag = tag
        self.calls = []        # (name, args..., tls)
        self.enqueued = []     # (sender, recipients, header bytes, body)

    def add(self, name, *args):
        self.calls.append((name,) + args)
        self.world.log('CB', self.tag, name)


def _apply(reply, verdict):
    if verdict:
        reply.code = str(verdict)
        reply.message = '%s.0.0 verdict %s' % (str(verdict)[0], verdict)


def make_classes(trace, verdicts, queue_results=None):
    """returns (session_class, validator_class, queue)"""
    SmtpEdge, SmtpSession, SmtpValidators, QueueError, Reply = _imports()
    counts = {}

    def verdict(kind):
        n = counts.get(kind, 0)
        counts[kind] = n + 1
        lst = verdicts.get(kind) or ()
        return lst[n] if n < len(lst) else None

    class V(SmtpValidators):
        def handle_banner(self, reply, address):
            _apply(reply, verdict('banner'))

        def handle_ehlo(self, reply, ehlo_as):
            _apply(reply, verdict('ehlo'))

        def handle_helo(self, reply, helo_as):
            _apply(reply, verdict('helo'))

        def handle_auth(self, reply, creds):
            trace.add('v_auth', getattr(creds, 'authcid', None),
                      getattr(creds, 'authzid', None),
                      self.session.security == 'TLS')
            trace.creds.append(creds)
            _apply(reply, verdict('auth'))

        def handle_mail(self, reply, sender, params):
            _apply(reply, verdict('mail'))

        def handle_rcpt(self, reply, rcpt, params):
            _apply(reply, verdict('rcpt'))

        def handle_data(self, reply):
            _apply(reply, verdict('data'))

        def handle_have_data(self, reply, data):
            _apply(reply, verdict('have_data'))

        def handle_queued(self, reply, results):
            _apply(reply, verdict('queued'))

    trace.creds = []

    class S(SmtpSession):
        def _tls(self):
            return self.security == 'TLS'

        def BANNER_(self, reply):
            trace.add('BANNER', self._tls())
            SmtpSession.BANNER_(self, reply)
            trace.add('=', reply.code)

        def EHLO(self, reply, ehlo_as):
            trace.add('EHLO', ehlo_as, self._tls())
            SmtpSession.EHLO(self, reply, ehlo_as)
            trace.add('=', reply.code)

        def HELO(self, reply, helo_as):
            trace.add('HELO', helo_as, self._tls())
            SmtpSession.HELO(self, reply, helo_as)
            trace.add('=', reply.code)

        def TLSHANDSHAKE2(self, ssl_socket):
            trace.add('TLS')
            SmtpSession.TLSHANDSHAKE2(self, ssl_socket)

        def AUTH(self, reply, creds):
            trace.add('AUTH', self._tls())
            SmtpSession.AUTH(self, reply, creds)
            trace.add('=', reply.code)
            trace.add('authattr', self.auth)

        def RSET(self, reply):
            trace.add('RSET', self._tls())
            SmtpSession.RSET(self, reply)
            _apply(reply, verdict('rset'))
            trace.add('=', reply.code)

        def NOOP(self, reply):
            trace.add('NOOP', self._tls())

        def QUIT(self, reply):
            trace.add('QUIT', self._tls())

        def STARTTLS(self, reply, extensions):
            trace.add('STARTTLS')
            _apply(reply, verdict('starttls'))

        def MAIL(self, reply, address, params):
            trace.add('MAIL', address, tuple(sorted(
                (k, v) for k, v in params.items())), self._tls())
            SmtpSession.MAIL(self, reply, address, params)
            trace.add('=', reply.code)

        def RCPT(self, reply, address, params):
            trace.add('RCPT', address, tuple(sorted(
                (k, v) for k, v in params.items())), self._tls())
            SmtpSession.RCPT(self, reply, address, params)
            trace.add('=', reply.code)

        def DATA(self, reply):
            trace.add('DATA', self._tls())
            SmtpSession.DATA(self, reply)
            trace.add('=', reply.code)

        def HAVE_DATA(self, reply, data, err):
            trace.add('HAVE_DATA', data, type(err).__name__ if err else None,
                      self._tls())
            try:
                SmtpSession.HAVE_DATA(self, reply, data, err)
            finally:
                trace.add('=', reply.code)

        def XMARK(self, reply, arg, server):
            trace.add('XMARK', arg, self._tls())
            reply.code = '250'
            reply.message = '2.0.0 mark ' + (arg or b'').decode(
                'utf-8', 'replace')

    class Q(object):
        """capturing queue stub"""
        n = 0

        def enqueue(self, envelope):
            hdr, body = envelope.flatten()
            trace.enqueued.append((envelope.sender,
                                   tuple(envelope.recipients), hdr, body))
            trace.add('ENQ', envelope.sender, tuple(envelope.recipients),
                      hdr, body)
            k = Q.n
            Q.n += 1
            res = (queue_results or ())
            r = res[k] if k < len(res) else None
            if r is None:
                return [(envelope, 'id%d' % k)]
            if r == 'qerr':
                return [(envelope, QueueError('injected'))]
            if r == 'qerr-reply':
                e = QueueError('injected')
                e.reply = Reply('452', '4.3.1 injected storage failure')
                return [(envelope, e)]
            raise RuntimeError('injected enqueue exception')

    return S, V, Q()


def start_server(world, trace, cfg, sock, addr):
    """spawn real SmtpEdge.handle on `sock`; returns the greenlet"""
    SmtpEdge = _imports()[0]
    S, V, q = make_classes(trace, cfg.get('verdicts') or {},
                           cfg.get('queue_results'))
    ctx = None
    if cfg.get('tls'):
        ctx = SimTLSContext(fail_handshake=bool(cfg.get('tls_fail')))
    auth = cfg.get('auth') or False
    if isinstance(auth, list):
        # the installed pysasl (1.2.0) indexes mechanisms by bytes names
        auth = [x.encode('ascii') if isinstance(x, str) else x for x in auth]
    edge = SmtpEdge(None, q, max_size=cfg.get('max_size'),
                    validator_class=V, auth=auth,
                    context=ctx,
                    tls_immediately=bool(cfg.get('tls_immediately')),
                    command_timeout=cfg.get('command_timeout'),
                    data_timeout=cfg.get('data_timeout'),
                    hostname='edge.sim', session_class=S)
    g = gevent.spawn(edge.handle, sock, addr)
    trace.edge = edge
    return g


def read_all(sock, out, limit=1 << 20):
    """reader greenlet body: collect everything the peer sends until EOF"""
    try:
        while len(out) < limit:
            d = sock.recv(4096)
            if not d:
                break
            out += d
    except OSError:
        pass


def parse_replies(data):
    """split a server byte stream into (code, [lines]) replies; returns
    (replies, leftover)"""
    replies = []
    cur = None
    lines = data.split(b'\r\n')
    leftover = lines.pop()
    for ln in lines:
        if len(ln) >= 3 and ln[:3].isdigit():
            code = ln[:3].decode()
            sep = ln[3:4]
            text = ln[4:]
            if cur is None:
                cur = [code, [text]]
            else:
                cur[1].append(text)
            if sep != b'-':
                replies.append((cur[0], cur[1]))
                cur = None
        else:
            # newline_first of the timeout reply, or garbage
            if ln == b'' and cur is None:
                continue
            replies.append(('???', [ln]))
    if cur is not None:
        replies.append((cur[0] + '+partial', cur[1]))
    return replies, leftover
