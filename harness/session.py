"""Server-side session harness: the real SmtpEdge.handle (real Server + real
SmtpSession) on a SimSocket, with recording validators and a capturing queue.
Used by C07, C08, C09, C14 (server side)."""
from __future__ import annotations

import gevent

from sim import net
from sim.tls import SimTLSContext, install_tls_seam


def _imports():
    from slimta.edge.smtp import SmtpEdge, SmtpSession, SmtpValidators
    from slimta.queue import QueueError
    from slimta.smtp.reply import Reply
    return SmtpEdge, SmtpSession, SmtpValidators, QueueError, Reply


class PtrShim(object):
    """stands in for the `socket` module inside slimta.util.ptrlookup"""

    class herror(OSError):
        pass

    class gaierror(OSError):
        pass

    def __init__(self):
        self.latency = 0.0
        self.answer = None

    def gethostbyaddr(self, ip):
        gevent.sleep(self.latency)
        if self.answer is None:
            raise self.herror(1, 'Unknown host')
        return (self.answer, [], [ip])


PTR = PtrShim()


def install_seams():
    install_tls_seam()
    import slimta.util.ptrlookup as pl
    pl.socket = PTR


class Trace(object):
    """callback trace of one session"""

    def __init__(self, world, tag):
        self.world = world
        self.tag = tag
        self.calls = []        # (name, args..., tls)
        self.enqueued = []     # (sender, recipients, header bytes, body)

    def add(self, name, *args):
        self.calls.append((name,) + args)
        self.world.log('CB', self.tag, name)


BY_ADDR = ('198.51.100.99', 9999)
BY_SENDER = 'bystander@other.example'


def _apply(reply, verdict):
    if verdict:
        reply.code = str(verdict)
        reply.message = '%s.0.0 verdict %s' % (str(verdict)[0], verdict)


def make_classes(trace, verdicts, queue_results=None):
    """returns (session_class, validator_class, queue)"""
    SmtpEdge, SmtpSession, SmtpValidators, QueueError, Reply = _imports()
    counts = {}

    trace.by = Trace(trace.world, trace.tag + '-by')

    def tr(session):
        # a bystander session on the same edge is recorded apart and gets
        # no scripted verdicts
        return trace.by if getattr(session, 'address', None) == BY_ADDR \
            else trace

    def verdict(kind, session=None):
        if session is not None and getattr(session, 'address',
                                           None) == BY_ADDR:
            return None
        n = counts.get(kind, 0)
        counts[kind] = n + 1
        lst = verdicts.get(kind) or ()
        return lst[n] if n < len(lst) else None

    class V(SmtpValidators):
        def handle_banner(self, reply, address):
            _apply(reply, verdict('banner', self.session))

        def handle_ehlo(self, reply, ehlo_as):
            _apply(reply, verdict('ehlo', self.session))

        def handle_helo(self, reply, helo_as):
            _apply(reply, verdict('helo', self.session))

        def handle_auth(self, reply, creds):
            tr(self.session).add('v_auth', getattr(creds, 'authcid', None),
                      getattr(creds, 'authzid', None),
                      self.session.security == 'TLS')
            tr(self.session).creds.append(creds)
            vd = verdict('auth', self.session)
            if vd == 'raise-attr':
                # an application bug of the usual kind: unknown user
                raise AttributeError("'NoneType' object has no attribute "
                                     "'password'")
            _apply(reply, vd)

        def handle_mail(self, reply, sender, params):
            _apply(reply, verdict('mail', self.session))

        def handle_rcpt(self, reply, rcpt, params):
            _apply(reply, verdict('rcpt', self.session))

        def handle_data(self, reply):
            _apply(reply, verdict('data', self.session))

        def handle_have_data(self, reply, data):
            _apply(reply, verdict('have_data', self.session))

        def handle_queued(self, reply, results):
            _apply(reply, verdict('queued', self.session))

    trace.creds = []
    trace.by.creds = []

    class S(SmtpSession):
        def _tls(self):
            return self.security == 'TLS'

        def BANNER_(self, reply):
            tr(self).add('BANNER', self._tls())
            SmtpSession.BANNER_(self, reply)
            tr(self).add('=', reply.code)

        def EHLO(self, reply, ehlo_as):
            tr(self).add('EHLO', ehlo_as, self._tls())
            SmtpSession.EHLO(self, reply, ehlo_as)
            tr(self).add('=', reply.code)

        def HELO(self, reply, helo_as):
            tr(self).add('HELO', helo_as, self._tls())
            SmtpSession.HELO(self, reply, helo_as)
            tr(self).add('=', reply.code)

        def TLSHANDSHAKE2(self, ssl_socket):
            tr(self).add('TLS')
            SmtpSession.TLSHANDSHAKE2(self, ssl_socket)

        def AUTH(self, reply, creds):
            tr(self).add('AUTH', self._tls())
            SmtpSession.AUTH(self, reply, creds)
            tr(self).add('=', reply.code)
            tr(self).add('authattr', self.auth)

        def RSET(self, reply):
            tr(self).add('RSET', self._tls())
            SmtpSession.RSET(self, reply)
            _apply(reply, verdict('rset', self))
            tr(self).add('=', reply.code)

        def NOOP(self, reply):
            tr(self).add('NOOP', self._tls())

        def QUIT(self, reply):
            tr(self).add('QUIT', self._tls())

        def STARTTLS(self, reply, extensions):
            tr(self).add('STARTTLS')
            _apply(reply, verdict('starttls', self))

        def MAIL(self, reply, address, params):
            tr(self).add('MAIL', address, tuple(sorted(
                (k, v) for k, v in params.items())), self._tls())
            SmtpSession.MAIL(self, reply, address, params)
            tr(self).add('=', reply.code)

        def RCPT(self, reply, address, params):
            tr(self).add('RCPT', address, tuple(sorted(
                (k, v) for k, v in params.items())), self._tls())
            SmtpSession.RCPT(self, reply, address, params)
            tr(self).add('=', reply.code)

        def DATA(self, reply):
            tr(self).add('DATA', self._tls())
            SmtpSession.DATA(self, reply)
            tr(self).add('=', reply.code)

        def HAVE_DATA(self, reply, data, err):
            tr(self).add('HAVE_DATA', data, type(err).__name__ if err else None,
                      self._tls())
            try:
                SmtpSession.HAVE_DATA(self, reply, data, err)
            finally:
                tr(self).add('=', reply.code)

        def XMARK(self, reply, arg, server):
            tr(self).add('XMARK', arg, self._tls())
            reply.code = '250'
            reply.message = '2.0.0 mark ' + (arg or b'').decode(
                'utf-8', 'replace')

    class Q(object):
        """capturing queue stub"""
        n = 0

        def enqueue(self, envelope):
            hdr, body = envelope.flatten()
            if envelope.sender == BY_SENDER:
                trace.by.enqueued.append((envelope.sender,
                                          tuple(envelope.recipients), hdr,
                                          body))
                return [(envelope, 'by')]
            trace.enqueued.append((envelope.sender,
                                   tuple(envelope.recipients), hdr, body))
            trace.add('ENQ', envelope.sender, tuple(envelope.recipients),
                      hdr, body)
            k = Q.n
            Q.n += 1
            res = (queue_results or ())
            r = res[k] if k < len(res) else None
            if r is None:
                return [(envelope, 'id%d' % k)]
            if r == 'qerr':
                return [(envelope, QueueError('injected'))]
            if r == 'qerr-reply':
                e = QueueError('injected')
                e.reply = Reply('452', '4.3.1 injected storage failure')
                return [(envelope, e)]
            raise RuntimeError('injected enqueue exception')

    return S, V, Q()


def start_server(world, trace, cfg, sock, addr):
    """spawn real SmtpEdge.handle on `sock`; returns the greenlet"""
    SmtpEdge = _imports()[0]
    S, V, q = make_classes(trace, cfg.get('verdicts') or {},
                           cfg.get('queue_results'))
    ctx = None
    if cfg.get('tls'):
        ctx = SimTLSContext(fail_handshake=bool(cfg.get('tls_fail')))
    auth = cfg.get('auth') or False
    if isinstance(auth, list):
        # the installed pysasl (1.2.0) indexes mechanisms by bytes names
        auth = [x.encode('ascii') if isinstance(x, str) else x for x in auth]
    edge = SmtpEdge(None, q, max_size=cfg.get('max_size'),
                    validator_class=V, auth=auth,
                    context=ctx,
                    tls_immediately=bool(cfg.get('tls_immediately')),
                    command_timeout=cfg.get('command_timeout'),
                    data_timeout=cfg.get('data_timeout'),
                    hostname='edge.sim', session_class=S)
    g = gevent.spawn(edge.handle, sock, addr)
    trace.edge = edge
    return g


def read_all(sock, out, limit=1 << 20):
    """reader greenlet body: collect everything the peer sends until EOF"""
    try:
        while len(out) < limit:
            d = sock.recv(4096)
            if not d:
                break
            out += d
    except OSError:
        pass


def parse_replies(data):
    """split a server byte stream into (code, [lines]) replies; returns
    (replies, leftover)"""
    replies = []
    cur = None
    lines = data.split(b'\r\n')
    leftover = lines.pop()
    for ln in lines:
        if len(ln) >= 3 and ln[:3].isdigit():
            code = ln[:3].decode()
            sep = ln[3:4]
            text = ln[4:]
            if cur is None:
                cur = [code, [text]]
            else:
                cur[1].append(text)
            if sep != b'-':
                replies.append((cur[0], cur[1]))
                cur = None
        else:
            # newline_first of the timeout reply, or garbage
            if ln == b'' and cur is None:
                continue
            replies.append(('???', [ln]))
    if cur is not None:
        replies.append((cur[0] + '+partial', cur[1]))
    return replies, leftover


BY_LINES = [b'EHLO by.example', b'MAIL FROM:<' + BY_SENDER.encode() + b'>',
            b'RCPT TO:<x@other.example>', b'RCPT TO:<y@other.example>',
            b'DATA', b'Subject: bystander\r\n\r\nbystander body\r\n.',
            b'QUIT']
BY_CODES = ['220', '250', '250', '250', '250', '354', '250', '221']


def start_bystander(world, trace, pace_key='by'):
    """A second client of the *same* edge object, at the same time: a plain
    transaction, one command at a time at a seeded pace.  Whatever the main
    session does, this one must run its course - sessions share no state.
    Returns a dict filled in as it goes; judge with bystander_verdict()."""
    from sim.world import H
    a, b = net.socketpair(world, 'bystander',
                          a_opts={'latency': net.LAT_SMALL},
                          b_opts={'latency': net.LAT_SMALL})
    out = {'codes': [], 'done': False}
    srv = gevent.spawn(trace.edge.handle, b, BY_ADDR)

    def client():
        buf = b''
        k = 0

        def reply():
            nonlocal buf
            while True:
                lines = buf.split(b'\r\n')
                for i, l in enumerate(lines[:-1]):
                    if len(l) >= 4 and l[3:4] == b' ':
                        buf = b'\r\n'.join(lines[i + 1:])
                        return l[:3].decode('latin1')
                try:
                    with gevent.Timeout(60.0):
                        d = a.recv(4096)
                except (gevent.Timeout, OSError):
                    return None
                if not d:
                    return None
                buf += d
        c = reply()
        out['codes'].append(c)
        for line in BY_LINES:
            if c is None:
                break
            k += 1
            gevent.sleep((0.0, 0.0005, 0.002, 0.006)[
                H(world.sched_seed, pace_key, k) % 4])
            try:
                a.sendall(line + b'\r\n')
            except OSError:
                break
            c = reply()
            out['codes'].append(c)
        out['done'] = True
        try:
            a.close()
        except Exception:
            pass
    out['greenlet'] = gevent.spawn(client)
    out['server'] = srv
    return out


def bystander_verdict(world, trace, out, cfg=None):
    """None, or a description of how the bystander session was disturbed"""
    world.wait(out['greenlet'], 300.0)
    world.wait(out['server'], 60.0)
    ms = (cfg or {}).get('max_size')
    size = len(BY_LINES[5]) - 1
    refused = BY_CODES[:6] + ['552', '221']
    if ms is not None and ms < size + 8:
        # the edge's own size limit refuses the bystander's message (right
        # at the limit either answer is taken: the exact boundary is C09's
        # subject, not this check's)
        if out['codes'] == refused and not trace.by.enqueued:
            return None
        if ms <= size - 8:
            return ('a plain transaction run at the same time on the same '
                    'edge (size limit %d) was answered %r, expected %r; '
                    'queued %d' % (ms, out['codes'], refused,
                                   len(trace.by.enqueued)))
    if out['codes'] != BY_CODES:
        return ('a plain transaction run at the same time on the same edge '
                'was answered %r, expected %r' % (out['codes'], BY_CODES))
    enq = trace.by.enqueued
    want_r = ('x@other.example', 'y@other.example')
    if len(enq) != 1 or enq[0][0] != BY_SENDER or enq[0][1] != want_r or \
            b'bystander body' not in enq[0][3]:
        return ('the message of a transaction run at the same time on the '
                'same edge reached the queue as %r' % (
                    [(e[0], e[1], e[3][:40]) for e in enq],))
    return None
