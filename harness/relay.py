"""Relay-side harness: every real relay class against a scripted downstream.

Seams: socket_creator= (SMTP/LMTP/MX), slimta.http.socket (HTTP),
slimta.relay.pipe.subprocess (pipe relays), slimta.relay.smtp.mx.DNSResolver
(MX lookups).  Ground truth is kept by the downstream fakes."""
from __future__ import annotations

import base64

import gevent
from gevent.event import AsyncResult

from sim import net
from sim.world import H
from sim.tls import SimTLSContext, install_tls_seam
from harness.smtppeer import ScriptedServer, Listener

import slimta.relay                      # noqa
import slimta.relay.pool                 # noqa
import slimta.relay.smtp                 # noqa
import slimta.relay.smtp.client          # noqa
import slimta.relay.smtp.lmtpclient      # noqa
import slimta.relay.smtp.static          # noqa
import slimta.relay.smtp.mx              # noqa
import slimta.relay.pipe                 # noqa
import slimta.relay.http                 # noqa
import slimta.http                       # noqa
import slimta.smtp.client                # noqa
import slimta.envelope                   # noqa

KINDS = ('smtp', 'lmtp', 'mx', 'pipe', 'pipe1', 'maildrop', 'dovecot', 'http')


def install_seams():
    install_tls_seam()
    import slimta.smtp.client as smc
    smc.wait_read = net.sim_wait_read


# ------------------------------------------------------------------ SimPopen
class SimSubprocess(object):
    """stands in for gevent.subprocess inside slimta.relay.pipe"""
    PIPE = -1

    def __init__(self, world, script):
        self.world = world
        self.script = script or []     # list of {rc, out, err, lat, hang}
        self.calls = []                # ground truth

    def Popen(self, args, stdin=None, stdout=None, stderr=None, **kw):
        return _Proc(self, args)

    class TimeoutExpired(Exception):
        def __init__(self, cmd, timeout):
            Exception.__init__(self, cmd, timeout)
            self.cmd, self.timeout = cmd, timeout


class _Proc(object):
    def __init__(self, sp, args):
        self.sp = sp
        self.args = list(args)
        self.returncode = None
        self.pid = 4242
        self.stubborn = False      # a hanging process that ignores SIGTERM

    # (not used by the pinned code: a relay that cleans up after a timeout
    # would call these; a stubborn process only goes away on kill())
    def terminate(self):
        self.sp.world.log('PROC', 'terminate')
        if not self.stubborn and self.returncode is None:
            self.returncode = -15

    def kill(self):
        self.sp.world.log('PROC', 'kill')
        if self.returncode is None:
            self.returncode = -9

    def poll(self):
        return self.returncode

    def wait(self, timeout=None):
        t = 0.0
        while self.returncode is None:
            if timeout is not None and t >= timeout:
                raise self.sp.TimeoutExpired(self.args, timeout)
            gevent.sleep(0.05)
            t += 0.05
        return self.returncode

    def communicate(self, stdin=None):
        sp = self.sp
        w = sp.world
        k = len(sp.calls)
        if isinstance(sp.script, dict):
            # keyed by an argument (recipient, else sender)
            spec = {}
            for a in self.args:
                if a in sp.script:
                    spec = sp.script[a]
                    if '@d.' in a:
                        break
        else:
            spec = sp.script[k] if k < len(sp.script) else {}
        rec = {'args': self.args, 'stdin': stdin, 't0': w.loop._now,
               't1': None, 'rc': None}
        sp.calls.append(rec)
        w.log('POPEN', k, spec.get('rc', 0))
        if spec.get('hang'):
            w.fault('subprocess-hang')
            # every other hanging process also ignores SIGTERM
            self.stubborn = len(sp.calls) % 2 == 0
            gevent.sleep(10 ** 7)
        lat = spec.get('lat', 0.0)
        if lat:
            gevent.sleep(lat)
        self.returncode = spec.get('rc', 0)
        rec['rc'] = self.returncode
        rec['t1'] = w.loop._now
        if self.returncode:
            w.fault('subprocess-nonzero-exit')
        return (spec.get('out', '').encode('utf-8'),
                spec.get('err', '').encode('utf-8'))


# ------------------------------------------------------------------ DNS stub
class _RData(object):
    def __init__(self, priority=None, host=None, ttl=300):
        self.priority = priority
        self.host = host
        self.ttl = ttl


class SimDNS(object):
    """stands in for slimta.util.dns.DNSResolver inside relay.smtp.mx"""

    def __init__(self, world, zones):
        self.world = world
        self.zones = zones or {}
        self.queries = []

    def query(self, name, qtype):
        from slimta.util.dns import DNSError
        from pycares.errno import ARES_ENOTFOUND, ARES_ENODATA, ARES_ETIMEOUT, \
            ARES_ESERVFAIL
        w = self.world
        res = AsyncResult()
        z = self.zones.get(name, {})
        ans = z.get(qtype, 'nodata')
        self.queries.append((name, qtype))
        w.log('DNS', name, qtype)
        lat = z.get('lat', 0.001)

        def finish():
            if ans == 'nodata':
                res.set_exception(DNSError(ARES_ENODATA))
            elif ans == 'notfound':
                res.set_exception(DNSError(ARES_ENOTFOUND))
            elif ans == 'timeout':
                w.fault('dns-timeout')
                res.set_exception(DNSError(ARES_ETIMEOUT))
            elif ans == 'servfail':
                w.fault('dns-servfail')
                res.set_exception(DNSError(ARES_ESERVFAIL))
            elif qtype == 'MX':
                res.set([_RData(p, h, 300) for p, h in ans])
            else:
                res.set([_RData(ttl=300) for _ in ans])
        gevent.spawn_later(lat, finish)
        return res


# ------------------------------------------------------------ HTTP responder
class HttpResponder(object):
    """scripted HTTP/1.1 server for HttpRelay (one per connection)"""

    def __init__(self, world, script, shared=None):
        self.world = world
        self.script = script or []
        self.requests = []
        self.shared = shared if shared is not None else {'n': 0}
        self.conn = None

    def serve(self, sock, conn_n=0):
        from harness.smtppeer import Conn
        w = self.world
        c = self.conn = Conn(conn_n, w.loop._now)
        buf = b''
        try:
            while True:
                while b'\r\n\r\n' not in buf:
                    try:
                        d = sock.recv(4096)
                    except OSError:
                        return
                    if not d:
                        return
                    buf += d
                head, buf = buf.split(b'\r\n\r\n', 1)
                lines = head.split(b'\r\n')
                reqline = lines[0]
                hdrs = [l.split(b':', 1) for l in lines[1:] if b':' in l]
                hd = {}
                rcpts = []
                for k, v in hdrs:
                    k2 = k.strip().lower()
                    v = v.strip()
                    if k2 == b'x-envelope-recipient':
                        rcpts.append(v)
                    hd[k2] = v
                n = int(hd.get(b'content-length', b'0'))
                while len(buf) < n:
                    try:
                        d = sock.recv(4096)
                    except OSError:
                        return
                    if not d:
                        return
                    buf += d
                body, buf = buf[:n], buf[n:]
                k = self.shared['n']        # requests are scripted globally
                self.shared['n'] = k + 1
                if isinstance(self.script, dict):
                    try:
                        snd = base64.b64decode(
                            hd.get(b'x-envelope-sender', b'')).decode()
                    except Exception:
                        snd = ''
                    spec = self.script.get(snd.split('@')[0], {})
                else:
                    spec = self.script[k] if k < len(self.script) else {}
                rec = {'t': w.loop._now, 'reqline': reqline, 'body': body,
                       'sender': hd.get(b'x-envelope-sender'),
                       'rcpts': rcpts, 'status': None, 'ehlo': hd.get(
                           b'x-ehlo')}
                self.requests.append(rec)
                w.log('HTTPREQ', conn_n, k)
                act = spec.get('act', 'reply')
                if spec.get('delay'):
                    gevent.sleep(spec['delay'])
                if act == 'disconnect':
                    w.fault('peer-disconnect')
                    c.closed_by = 'response'
                    return
                if act == 'rst':
                    w.fault('peer-rst')
                    sock.reset()
                    return
                if act == 'stall':
                    w.fault('peer-stall')
                    c.stalled_at = ('response', w.loop._now)
                    w.log('STALL', 'http', 'response')
                    gevent.sleep(10 ** 7)
                    return
                status = spec.get('status', 200)
                reason = {200: 'OK', 204: 'No Content', 400: 'Bad Request',
                          401: 'Unauthorized', 404: 'Not Found',
                          500: 'Internal Server Error',
                          503: 'Service Unavailable'}.get(status, 'Status')
                out = 'HTTP/1.1 %d %s\r\n' % (status, reason)
                rh = spec.get('reply_header')
                if rh is not None:
                    out += 'X-Smtp-Reply: %s\r\n' % rh
                # a third of the responses carry a short body (to be drained
                # before the connection can be used again)
                blen = spec['body'] if 'body' in spec else (
                    17 if H(w.sched_seed, 'httpbody', conn_n, k) % 3 == 0
                    else 0)
                if spec.get('status', 200) in (204, 304):
                    blen = 0            # (these have no body, by definition)
                body = b'x' * int(blen or 0)
                if body:
                    w.probe('http-response-body')
                if act == 'body-stall':
                    body = b'y' * 40
                out += 'Content-Length: %d\r\n' % len(body)
                if spec.get('close'):
                    out += 'Connection: close\r\n'
                out += '\r\n'
                data = out.encode('iso-8859-1')
                if act == 'body-stall':
                    # status line and headers complete, then the peer goes
                    # silent inside the announced body
                    w.fault('peer-stall')
                    c.stalled_at = ('body', w.loop._now)
                    w.log('STALL', 'http', 'body')
                    sock.sendall(data + body[:10])
                    rec['status'] = status
                    gevent.sleep(10 ** 7)
                    return
                late = bool(body) and spec.get('body_late', H(
                    w.sched_seed, 'httpbodylate', conn_n, k) % 2 == 0)
                if not late:
                    data += body
                if act == 'trickle':
                    # a header line that never ends, one byte at a time
                    w.fault('peer-trickle')
                    c.stalled_at = ('response', w.loop._now)
                    slow = data[:-4] + b'X-Slow: ' + b'z' * 400
                    try:
                        for i in range(len(slow)):
                            sock.sendall(slow[i:i + 1])
                            gevent.sleep(spec.get('gap', 1.0))
                    except OSError:
                        pass
                    return
                if act == 'partial':
                    w.fault('peer-partial-reply')
                    c.stalled_at = ('response', w.loop._now)
                    sock.sendall(data[:10])
                    gevent.sleep(10 ** 7)
                    return
                if act == 'garbage':
                    w.fault('peer-malformed-reply')
                    sock.sendall(b'\x00\x01 not http at all\r\n\r\n')
                    rec['status'] = 'garbage'
                    return
                sock.sendall(data)
                rec['status'] = status
                if late:
                    # the body follows in a segment of its own, a moment
                    # after the headers
                    gevent.sleep(0.02)
                    sock.sendall(body)
                    w.probe('http-response-body-late')
                if spec.get('close'):
                    return
        finally:
            c.t_close = w.loop._now
            try:
                sock.close()
            except Exception:
                pass


class _HttpSocketShim(object):
    """what slimta.http sees as `gevent.socket`"""

    def __init__(self, listener):
        self.listener = listener

    def create_connection(self, address, timeout=None, source_address=None,
                          **kw):
        s = self.listener.connect(address)
        if timeout is not None and not isinstance(timeout, object.__class__):
            try:
                s.settimeout(float(timeout))
            except (TypeError, ValueError):
                pass
        return s


# ------------------------------------------------------------------- builder
class Downstream(object):
    """everything a scenario's relay talks to, with its ground truth"""

    def __init__(self):
        self.listener = None
        self.subprocess = None
        self.dns = None
        self.http = []


def build_relay(world, scn):
    """scn: kind, relay kwargs, downstream scripts -> (relay, Downstream)"""
    install_seams()
    kind = scn['kind']
    ds = Downstream()
    to = scn.get('timeouts') or {}
    if kind in ('smtp', 'lmtp', 'mx'):
        scripts = scn.get('conn_scripts') or [{}]
        ext = scn.get('extensions')

        def make_server(k):
            sc = scripts[k] if k < len(scripts) else scripts[-1]
            return ScriptedServer(world, sc, lmtp=(kind == 'lmtp'),
                                  extensions=ext,
                                  tx_scripts=scn.get('tx_scripts'),
                                  tls_context=SimTLSContext()
                                  if sc.get('offer_starttls') or
                                  sc.get('tls_immediately') else None,
                                  label='peer%d' % k)
        ds.listener = Listener(world, make_server,
                               connect_plan=scn.get('connect_plan'),
                               label='ds',
                               client_opts={'latency': net.LAT_SMALL},
                               server_opts={
                                   'latency': net.LAT_SMALL,
                                   'segmenter': scn.get('segmenter', 'whole')})
        kwargs = dict(socket_creator=ds.listener.connect,
                      ehlo_as='relay.sim', context=SimTLSContext(),
                      connect_timeout=to.get('connect', 10.0),
                      command_timeout=to.get('command', 10.0),
                      data_timeout=to.get('data'),
                      idle_timeout=scn.get('idle_timeout'))
        if scn.get('tls_required'):
            kwargs['tls_required'] = True
        if scn.get('tls_immediately'):
            kwargs['tls_immediately'] = True
        if scn.get('credentials'):
            kwargs['credentials'] = tuple(scn['credentials'])
        if kind == 'smtp':
            from slimta.relay.smtp.static import StaticSmtpRelay
            relay = StaticSmtpRelay('mx.sim', 25,
                                    pool_size=scn.get('pool_size'), **kwargs)
        elif kind == 'lmtp':
            from slimta.relay.smtp.static import StaticLmtpRelay
            relay = StaticLmtpRelay('lda.sim', 24,
                                    pool_size=scn.get('pool_size'), **kwargs)
        else:
            import slimta.relay.smtp.mx as mxmod
            ds.dns = SimDNS(world, scn.get('zones'))
            mxmod.DNSResolver = ds.dns
            relay = mxmod.MxSmtpRelay(**kwargs)
        return relay, ds
    if kind in ('pipe', 'pipe1', 'maildrop', 'dovecot'):
        import slimta.relay.pipe as pmod
        ds.subprocess = SimSubprocess(world, scn.get('proc_script'))
        pmod.subprocess = ds.subprocess
        t = to.get('single')
        if kind == 'pipe':
            relay = pmod.PipeRelay(['deliver', '-f', '{sender}', '-d',
                                    '{recipient}'], timeout=t)
        elif kind == 'pipe1':
            relay = pmod.PipeRelay(['deliver', '-f', '{sender}', '-d',
                                    '{recipient}'], timeout=t)
            relay.per_recipient = False
        elif kind == 'maildrop':
            relay = pmod.MaildropRelay(timeout=t)
        else:
            relay = pmod.DovecotLdaRelay(timeout=t)
        return relay, ds
    if kind == 'http':
        import slimta.http as hmod
        scripts = scn.get('conn_scripts') or [[]]
        if scn.get('http_by_tag'):
            scripts = [scn['http_by_tag']]

        shared = {'n': 0}

        def make_server(k):
            sc = scripts[k] if k < len(scripts) else scripts[-1]
            r = HttpResponder(world, sc, shared)
            ds.http.append(r)
            return r
        ds.listener = Listener(world, make_server,
                               connect_plan=scn.get('connect_plan'),
                               label='ds',
                               client_opts={'latency': net.LAT_SMALL},
                               server_opts={'latency': net.LAT_SMALL})
        hmod.socket = _HttpSocketShim(ds.listener)
        from slimta.relay.http import HttpRelay
        relay = HttpRelay('http://h.sim/deliver',
                          pool_size=scn.get('pool_size'), ehlo_as='relay.sim',
                          timeout=to.get('single'),
                          idle_timeout=scn.get('idle_timeout'))
        return relay, ds
    raise ValueError(kind)


def make_envelope(sender, rcpts, tag='x', body=None):
    from slimta.envelope import Envelope
    env = Envelope(sender, list(rcpts))
    env.parse(b'Subject: relay test ' + tag.encode() + b'\r\nX-Tag: ' +
              tag.encode() + b'\r\n\r\n' + (body if body is not None else
                                            b'hello ' + tag.encode() + b'\r\n'))
    env.client = {'name': 'client.sim', 'ip': '192.0.2.7'}
    return env


def classify_result(fn):
    """run fn() (a relay attempt) -> dict(kind, per: {rcpt: 'ok'|'temp'|'perm'|
    'bad:<type>'}, exc)"""
    from slimta.relay import RelayError, PermanentRelayError, \
        TransientRelayError
    from slimta.smtp.reply import Reply
    import collections.abc
    out = {'raised': None, 'value': None, 'per': None, 'whole': None,
           'reply': None}
    try:
        r = fn()
    except PermanentRelayError as e:
        out['raised'] = type(e).__name__
        out['whole'] = 'perm'
        out['reply'] = (e.reply.code, e.reply.message)
        return out
    except TransientRelayError as e:
        out['raised'] = type(e).__name__
        out['whole'] = 'temp'
        out['reply'] = (e.reply.code, e.reply.message)
        return out
    except RelayError as e:
        out['raised'] = type(e).__name__
        out['whole'] = 'bad:RelayError'
        return out
    except BaseException as e:
        import traceback
        tb = traceback.extract_tb(e.__traceback__)
        site = '?'
        for fs in tb:
            fnm = fs.filename.replace('\\', '/')
            i = fnm.rfind('/slimta/')
            if i >= 0:
                site = 'slimta/%s:%s' % (fnm[i + 8:], fs.name)
        out['raised'] = type(e).__name__
        out['whole'] = 'foreign:%s' % type(e).__name__
        out['site'] = site
        out['msg'] = str(e)[:120]
        return out

    def one(v):
        if v is None or isinstance(v, Reply):
            if isinstance(v, Reply) and v.code and v.code[0] in '45':
                return 'bad:error-reply-as-success'
            return 'ok'
        if isinstance(v, PermanentRelayError):
            return 'perm'
        if isinstance(v, TransientRelayError):
            return 'temp'
        return 'bad:%s' % type(v).__name__
    out['value'] = type(r).__name__
    if isinstance(r, BaseException):
        out['whole'] = 'bad:returned-%s' % type(r).__name__
        return out
    if isinstance(r, collections.abc.Mapping):
        out['per'] = {k: one(v) for k, v in r.items()}
    elif isinstance(r, collections.abc.Sequence) and not isinstance(
            r, (str, bytes)):
        out['per'] = list(one(v) for v in r)
    else:
        out['whole'] = one(r)
    return out
