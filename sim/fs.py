"""SimFS: in-memory file system behind slimta.diskstorage's os / mkstemp /
aio_read / aio_write.  Every *effect* (mkstemp, each aio_write chunk, rename,
unlink) is numbered, so a kill can be placed before/after any of them, and
every completion takes seeded virtual time.  Model: process death - completed
system calls persist, in-flight ones either landed or did not."""
from __future__ import annotations

import errno
import os as _os
import posixpath

import gevent

from .world import H

LAT_DISK = (0.0, 0.0, 0.0005, 0.001, 0.002, 0.004)


class Killed(BaseException):
    """raised inside the greenlet that hits the chosen crash point"""


class SimFS(object):
    def __init__(self, world, label='fs', latency=LAT_DISK):
        self.world = world
        self.label = label
        self.latency = latency
        self.files = {}           # path -> bytearray (inode content)
        self.dirs = set(['/'])
        self.fds = {}             # fd -> inode (the bytearray), as POSIX fds do
        self.next_fd = 100
        self.effects = 0          # numbered effects so far
        self.effect_log = []      # (n, kind, path)
        self.kill_at = None       # (n, 'before'|'after')
        self.on_kill = None       # callback taking a snapshot
        self.killed = False
        self.fail_at = {}         # effect number -> errno (ENOSPC/EIO)
        self.short_at = {}        # effect number -> max bytes for aio_write
        self.short_mod = 0        # k > 0: every write whose keyed hash is
                                  # 0 mod k is a short (partial) write
        self.tmp_n = 0
        self.reads = 0
        self.fd_pos = {}          # fd -> read offset for os.read()

    # ---------------------------------------------------------- bookkeeping
    def mkdir(self, path):
        self.dirs.add(path.rstrip('/') or '/')

    def snapshot(self):
        return {p: bytes(b) for p, b in self.files.items()}

    def restore(self, snap):
        self.files = {p: bytearray(b) for p, b in snap.items()}
        self.fds = {}
        self.killed = False
        self.kill_at = None

    def _effect(self, kind, path):
        """numbers one effect; returns (n, errno-or-None).  May trigger the
        kill *before* the effect."""
        if self.killed:
            raise Killed()
        self.effects += 1
        n = self.effects
        self.effect_log.append((n, kind, posixpath.basename(path)))
        self.world.log('FS', self.label, n, kind)
        if self.kill_at is not None and self.kill_at == (n, 'before'):
            self._kill()
        err = self.fail_at.get(n)
        if err:
            self.world.fault('disk-' + errno.errorcode.get(err, str(err)))
        return n, err

    def _after(self, n):
        if self.kill_at is not None and self.kill_at == (n, 'after'):
            self._kill()

    def _kill(self):
        self.killed = True
        self.world.fault('kill')
        if self.on_kill is not None:
            self.on_kill(self.snapshot())
        raise Killed()

    def _lat(self, kind, n):
        return self.latency[H(self.world.sched_seed, 'fslat', self.label, kind,
                              n) % len(self.latency)]

    # ------------------------------------------------------------- os shim
    def lexists(self, path):
        if self.killed:
            raise Killed()
        return path in self.files or path in self.dirs

    def listdir(self, path):
        if self.killed:
            raise Killed()
        path = path.rstrip('/')
        out = []
        for p in self.files:
            d, b = posixpath.split(p)
            if d == path:
                out.append(b)
        # os.listdir order is arbitrary: seeded shuffle
        out.sort()
        k = self.world.counter('listdir')
        out.sort(key=lambda b: H(self.world.sched_seed, 'listdir', k, b))
        return out

    def mkstemp(self, dir=None, **kw):
        d = (dir or '/tmp').rstrip('/')
        n, err = self._effect('mkstemp', d)
        if err:
            raise OSError(err, _os.strerror(err))
        self.tmp_n += 1
        name = '%s/tmp%08x' % (d, H(self.world.sched_seed, 'tmpname',
                                    self.tmp_n) & 0xffffffff)
        self.files[name] = bytearray()
        fd = self.next_fd
        self.next_fd += 1
        self.fds[fd] = self.files[name]
        self._after(n)
        return fd, name

    def open(self, path, flags, mode=0o777):
        if self.killed:
            raise Killed()
        if path not in self.files:
            if not flags & _os.O_CREAT:
                raise FileNotFoundError(errno.ENOENT,
                                        _os.strerror(errno.ENOENT), path)
            n, err = self._effect('create', path)
            if err:
                raise OSError(err, _os.strerror(err))
            self.files[path] = bytearray()
            self._after(n)
        elif flags & _os.O_CREAT and flags & _os.O_EXCL:
            raise FileExistsError(errno.EEXIST, _os.strerror(errno.EEXIST),
                                  path)
        elif flags & _os.O_TRUNC and len(self.files[path]):
            n, err = self._effect('truncate', path)
            if err:
                raise OSError(err, _os.strerror(err))
            del self.files[path][:]
            self._after(n)
        fd = self.next_fd
        self.next_fd += 1
        self.fds[fd] = self.files[path]
        return fd

    def close(self, fd):
        self.fds.pop(fd, None)

    def rename(self, src, dst):
        n, err = self._effect('rename', dst)
        if err:
            raise OSError(err, _os.strerror(err))
        if src not in self.files:
            raise FileNotFoundError(errno.ENOENT, _os.strerror(errno.ENOENT),
                                    src)
        self.files[dst] = self.files.pop(src)
        self._after(n)

    def remove(self, path):
        if path not in self.files:
            raise FileNotFoundError(errno.ENOENT, _os.strerror(errno.ENOENT),
                                    path)
        n, err = self._effect('unlink', path)
        if err:
            raise OSError(err, _os.strerror(err))
        self.files.pop(path, None)
        self._after(n)

    unlink = remove

    def builtin_open(self, path, mode='r', *a, **kw):
        """stands in for the builtin open() inside slimta.diskstorage"""
        if self.killed:
            raise Killed()
        if 'b' not in mode:
            raise ValueError('SimFS: text-mode open(%r) is not modelled' % path)
        if 'w' in mode or ('a' in mode and path not in self.files) or \
                'x' in mode:
            if 'x' in mode and path in self.files:
                raise FileExistsError(errno.EEXIST,
                                      _os.strerror(errno.EEXIST), path)
            n, err = self._effect('create', path)
            if err:
                raise OSError(err, _os.strerror(err))
            self.files[path] = bytearray()
            self._after(n)
        elif path not in self.files:
            raise FileNotFoundError(errno.ENOENT, _os.strerror(errno.ENOENT),
                                    path)
        return SimFileObj(self, self.files[path], mode, path=path)

    # ------------------------------------------------------------- aio shim
    def aio_write(self, fd, piece, offset, callback):
        piece = bytes(piece)
        n, err = self._effect('write', '?')
        lat = self._lat('w', n)
        short = self.short_at.get(n)
        if short is None and self.short_mod and len(piece) > 1 and \
                H(self.world.sched_seed, 'shortw', self.label, n) % \
                self.short_mod == 0:
            # a legal partial write: the caller has to write the rest
            short = max(1, len(piece) // 2)

        def complete():
            if self.killed:
                return
            if err:
                callback(-1, err)
                return
            data = piece
            if short is not None and len(data) > short:
                data = data[:max(1, short)]
                self.world.fault('short-write')
            buf = self.fds.get(fd)
            if buf is None:
                callback(-1, errno.EBADF)
                return
            if len(buf) < offset:
                buf.extend(b'\0' * (offset - len(buf)))
            buf[offset:offset + len(data)] = data
            try:
                self._after(n)
            except Killed:
                return
            callback(len(data), 0)
        t = self.world.loop.timer(lat)
        t.start(complete)

    def aio_read(self, fd, offset, size, callback):
        if self.killed:
            raise Killed()
        self.reads += 1
        k = self.reads
        lat = self._lat('r', k)
        err = self.fail_at.get(('r', k))

        def complete():
            if self.killed:
                return
            if err:
                self.world.fault('disk-read-' + errno.errorcode.get(err, '?'))
                callback(None, -1, err)
                return
            buf = self.fds.get(fd)
            if buf is None:
                callback(None, -1, errno.EBADF)
                return
            data = bytes(buf[offset:offset + size])
            callback(data, len(data), 0)
        t = self.world.loop.timer(lat)
        t.start(complete)


class SimFileObj(object):
    """what os.fdopen() / open() give: a user-space buffer in front of the
    inode.  Buffered bytes reach the file system (one numbered 'write' effect)
    on flush()/close() only, so a process death before that loses them - as
    with a real io.BufferedWriter."""

    def __init__(self, fs, inode, mode='rb', fd=None, path='?'):
        self._fs = fs
        self._inode = inode
        self._fd = fd
        self._path = path
        self.mode = mode
        self._pos = len(inode) if 'a' in mode else 0
        self._wbuf = bytearray()
        self.closed = False

    def write(self, data):
        if self.closed:
            raise ValueError('I/O operation on closed file')
        self._wbuf += bytes(data)
        return len(data)

    def flush(self):
        if not self._wbuf:
            return
        fs = self._fs
        n, err = fs._effect('write', self._path)
        if err:
            raise OSError(err, _os.strerror(err))
        data = bytes(self._wbuf)
        del self._wbuf[:]
        buf = self._inode
        if len(buf) < self._pos:
            buf.extend(b'\0' * (self._pos - len(buf)))
        buf[self._pos:self._pos + len(data)] = data
        self._pos += len(data)
        fs._after(n)

    def read(self, size=-1):
        self.flush()
        if self._fs.killed:
            raise Killed()
        end = len(self._inode) if size is None or size < 0 else self._pos + size
        data = bytes(self._inode[self._pos:end])
        self._pos += len(data)
        return data

    def readline(self):
        self.flush()
        i = self._inode.find(b'\n', self._pos)
        end = len(self._inode) if i < 0 else i + 1
        data = bytes(self._inode[self._pos:end])
        self._pos = end
        return data

    def readinto(self, b):
        data = self.read(len(b))
        b[:len(data)] = data
        return len(data)

    def seek(self, pos, whence=0):
        self.flush()
        self._pos = pos if whence == 0 else (
            self._pos + pos if whence == 1 else len(self._inode) + pos)
        return self._pos

    def tell(self):
        return self._pos + len(self._wbuf)

    def fileno(self):
        return self._fd

    def close(self):
        if self.closed:
            return
        try:
            self.flush()
        finally:
            self.closed = True
            if self._fd is not None:
                self._fs.fds.pop(self._fd, None)

    def __enter__(self):
        return self

    def __exit__(self, *exc):
        self.close()
        return False


class _Stat(object):
    def __init__(self, size, isdir=False):
        self.st_size = size
        self.st_mode = 0o040755 if isdir else 0o100644
        self.st_mtime = self.st_ctime = self.st_atime = 0.0
        self.st_nlink = 1


class OsShim(object):
    """what slimta.diskstorage sees as `os`"""

    def __init__(self, fs):
        self._fs = fs
        self.path = _PathShim(fs)
        self.O_RDONLY = _os.O_RDONLY

    def rename(self, a, b):
        return self._fs.rename(a, b)

    def close(self, fd):
        return self._fs.close(fd)

    def open(self, path, flags, mode=0o777):
        return self._fs.open(path, flags, mode)

    def remove(self, path):
        return self._fs.remove(path)

    def unlink(self, path):
        return self._fs.remove(path)

    def listdir(self, path):
        return self._fs.listdir(path)

    def strerror(self, e):
        return _os.strerror(e)

    # (not used by the pinned code; present so that a rewrite of the disk
    # layer on plain descriptors / file objects still runs on SimFS)
    def fdopen(self, fd, mode='r', *a, **kw):
        fs = self._fs
        if fs.killed:
            raise Killed()
        if fd not in fs.fds:
            raise OSError(errno.EBADF, _os.strerror(errno.EBADF))
        return SimFileObj(fs, fs.fds[fd], mode, fd=fd)

    def write(self, fd, data):
        fs = self._fs
        if fd not in fs.fds:
            raise OSError(errno.EBADF, _os.strerror(errno.EBADF))
        n, err = fs._effect('write', '?')
        if err:
            raise OSError(err, _os.strerror(err))
        fs.fds[fd].extend(bytes(data))
        fs._after(n)
        return len(data)

    def read(self, fd, size):
        fs = self._fs
        if fs.killed:
            raise Killed()
        if fd not in fs.fds:
            raise OSError(errno.EBADF, _os.strerror(errno.EBADF))
        pos = fs.fd_pos.get(fd, 0)
        data = bytes(fs.fds[fd][pos:pos + size])
        fs.fd_pos[fd] = pos + len(data)
        return data

    def fsync(self, fd):
        if self._fs.killed:
            raise Killed()

    def fstat(self, fd):
        fs = self._fs
        if fs.killed:
            raise Killed()
        if fd not in fs.fds:
            raise OSError(errno.EBADF, _os.strerror(errno.EBADF))
        return _Stat(len(fs.fds[fd]))

    def stat(self, path):
        fs = self._fs
        if fs.killed:
            raise Killed()
        if path in fs.files:
            return _Stat(len(fs.files[path]))
        if path in fs.dirs:
            return _Stat(0, isdir=True)
        raise FileNotFoundError(errno.ENOENT, _os.strerror(errno.ENOENT), path)

    lstat = stat

    def makedirs(self, path, mode=0o777, exist_ok=False):
        self._fs.mkdir(path)

    mkdir = makedirs

    fdatasync = fsync

    def __getattr__(self, name):
        # constants (O_*, sep, ...) and pure helpers come from the real module
        if name.startswith('O_') or name in ('sep', 'linesep', 'fspath',
                                             'getpid', 'error', 'devnull'):
            return getattr(_os, name)
        raise AttributeError(name)


class _PathShim(object):
    def __init__(self, fs):
        self._fs = fs

    def join(self, *a):
        return posixpath.join(*a)

    def basename(self, p):
        return posixpath.basename(p)

    def dirname(self, p):
        return posixpath.dirname(p)

    def splitext(self, p):
        return posixpath.splitext(p)

    def isfile(self, p):
        return p in self._fs.files

    def isdir(self, p):
        return p in self._fs.dirs

    def getsize(self, p):
        if p not in self._fs.files:
            raise FileNotFoundError(errno.ENOENT, _os.strerror(errno.ENOENT), p)
        return len(self._fs.files[p])

    def lexists(self, p):
        return self._fs.lexists(p)

    exists = lexists


def install(fs):
    """point slimta.diskstorage at `fs` (module-attribute seam)"""
    import slimta.diskstorage as ds
    ds.os = OsShim(fs)
    ds.mkstemp = fs.mkstemp
    ds.open = fs.builtin_open     # (module global shadows the builtin)
    ds.aio_read = fs.aio_read
    ds.aio_write = fs.aio_write
    # AioFile._keep_awake spins at 1 kHz only to keep a *real* loop awake
    # while the kernel completes AIO; under SimLoop completions are loop
    # timers, so the spinner is replaced by an idle sleeper (it also leaks
    # for ever after AioFile.load() of a missing file, which would cost
    # ~1000 steps per simulated second).
    ds.AioFile._keep_awake = classmethod(_idle_keep_awake)
    return ds


def _idle_keep_awake(cls):
    while True:
        gevent.sleep(1000.0)
