"""World = one SimLoop + SimHub + event log + keyed randomness for one scenario.

Process-global seams (time.time, uuid.uuid4, socket.getfqdn, make_msgid,
global random) are installed once per process and read the *current* world.
"""
from __future__ import annotations

import gc
import hashlib
import os
import random
import struct
import sys
import time as _time
import traceback
import uuid as _uuid

import gevent
import gevent.hub
from gevent._hub_local import set_hub, get_hub_if_exists
from greenlet import GreenletExit

from .loop import SimLoop, MissingSeam, EPOCH

CURRENT = None          # the world being executed in this process, if any
_REAL_TIME = _time.time
_REAL_PERF = _time.perf_counter
_REAL_UUID4 = _uuid.uuid4
_installed = False


def H(*key):
    """Keyed 64-bit hash: every scheduling decision is H(seed, site, ...)."""
    h = hashlib.blake2b(repr(key).encode('utf-8', 'backslashreplace'),
                        digest_size=8).digest()
    return struct.unpack('<Q', h)[0]


def Hf(*key):
    return (H(*key) >> 11) / float(1 << 53)


def _sim_time():
    w = CURRENT
    if w is None:
        return _REAL_TIME()
    return w.loop._now


def _sim_uuid4():
    w = CURRENT
    if w is None:
        return _REAL_UUID4()
    return w.next_uuid()


def _sim_make_msgid(idstring=None, domain=None):
    w = CURRENT
    n = w.counter('msgid') if w is not None else 0
    return '<%d.%s@%s>' % (n, idstring or 'sim', domain or 'sim.local')


def install_global_seams():
    global _installed
    if _installed:
        return
    _installed = True
    os.environ['TZ'] = 'UTC'
    _time.tzset()
    _time.time = _sim_time
    _uuid.uuid4 = _sim_uuid4
    import socket
    socket.getfqdn = lambda name='': 'sim.local'
    import gevent.socket
    gevent.socket.getfqdn = socket.getfqdn
    import email.utils
    email.utils.make_msgid = _sim_make_msgid
    try:
        import pysasl.mechanism.crammd5 as _c
        if hasattr(_c, 'make_msgid'):
            _c.make_msgid = _sim_make_msgid
    except Exception:
        pass
    try:
        import pysasl.mechanisms.crammd5 as _c2
        if hasattr(_c2, 'make_msgid'):
            _c2.make_msgid = _sim_make_msgid
    except Exception:
        pass
    import logging
    logging.disable(logging.CRITICAL)


def _slimta_frame(tb):
    """innermost frame inside slimta/ of a traceback, as 'file:function'."""
    best = None
    last = None
    for fs in traceback.extract_tb(tb):
        fn = fs.filename.replace('\\', '/')
        last = '%s:%s' % (os.path.basename(fn), fs.name)
        i = fn.rfind('/slimta/')
        if i >= 0:
            best = 'slimta/%s:%s' % (fn[i + 8:], fs.name)
    return best or last or '?'


class SimHub(gevent.hub.Hub):
    world = None

    def print_exception(self, context, type, value, tb):
        w = self.world
        if w is None or w.detached:
            return
        site = _slimta_frame(tb) if tb is not None else '?'
        w.exceptions.append((type.__name__, str(value)[:200], site))
        w.log('EXC', type.__name__, site)
        if isinstance(value, MissingSeam) or type in (
                NameError, ImportError) or w.debug:
            w.harness_errors.append('%s: %s at %s\n%s' % (
                type.__name__, value, site,
                ''.join(traceback.format_exception(type, value, tb))))

    def handle_system_error(self, type, value, tb=None):
        w = self.world
        if w is not None:
            w.harness_errors.append('system error %s: %s' % (type.__name__,
                                                             value))
        gevent.hub.Hub.handle_system_error(self, type, value, tb)


class World(object):
    """One simulated universe.  Create, run the scenario in the calling
    (main) greenlet with gevent primitives, then close()."""

    def __init__(self, sched_seed, step_cap=400000, debug=False):
        global CURRENT
        install_global_seams()
        if CURRENT is not None:
            raise RuntimeError('nested World')
        old = get_hub_if_exists()
        if old is not None and not isinstance(old, SimHub):
            # a real hub was created in this process (e.g. by an import);
            # get rid of it so nothing is scheduled on a real loop.
            try:
                old.destroy(destroy_loop=True)
            except Exception:
                pass
        self.sched_seed = sched_seed
        self.debug = debug
        self.events = []
        self.exceptions = []
        self.harness_errors = []
        self.counters = {}
        self.probes = {}
        self.faults = {}
        self.detached = False
        self._uuid_rng = random.Random(H(sched_seed, 'uuid'))
        self.uuid_repeat = None        # optional: index at which to repeat
        self._last_uuid = None
        self.loop = SimLoop(tie_rng=random.Random(H(sched_seed, 'tie')),
                            step_cap=step_cap)
        # equal-due timers: same iteration (libev batch, 3 worlds in 4) or
        # one per iteration; both are schedules the real loop produces
        self.loop.batch_timers = H(sched_seed, 'batch-timers') % 4 != 0
        self.hub = SimHub(loop=self.loop)
        self.hub.world = self
        set_hub(self.hub)
        random.seed(H(sched_seed, 'global-random'))
        self._gc_was = gc.isenabled()
        gc.disable()
        CURRENT = self

    # -- deterministic helpers
    def counter(self, name):
        n = self.counters.get(name, 0)
        self.counters[name] = n + 1
        return n

    def next_uuid(self):
        n = self.counter('uuid')
        if self.uuid_repeat is not None and n == self.uuid_repeat \
                and self._last_uuid is not None:
            self.probe('uuid-collision-injected')
            return self._last_uuid
        u = _uuid.UUID(int=self._uuid_rng.getrandbits(128), version=4)
        self._last_uuid = u
        return u

    def draw(self, *key):
        """uniform float in [0,1) keyed by (sched_seed, key)."""
        return Hf(self.sched_seed, key)

    def draw_int(self, n, *key):
        return H(self.sched_seed, key) % n

    def latency(self, cls, *key):
        """latency for one completion, by latency class `cls`:
        a tuple of candidate values; picks one keyed."""
        return cls[H(self.sched_seed, 'lat', key) % len(cls)]

    # -- recording
    def now(self):
        return round(self.loop._now - EPOCH, 6)

    def log(self, kind, *fields):
        if not self.detached:
            self.events.append((self.now(), kind) + fields)

    def probe(self, name, n=1):
        self.probes[name] = self.probes.get(name, 0) + n

    def fault(self, name, n=1):
        self.faults[name] = self.faults.get(name, 0) + n

    def digest(self):
        dump = os.environ.get('VERIF_DUMP_EVENTS')
        if dump:
            with open(dump, 'a') as f:
                f.write('=== world %s\n' % self.sched_seed)
                for ev in self.events:
                    f.write(repr(ev) + '\n')
        h = hashlib.sha256()
        for ev in self.events:
            h.update(repr(ev).encode('utf-8', 'backslashreplace'))
            h.update(b'\n')
        return h.hexdigest()

    # -- running
    def run_for(self, seconds):
        """advance virtual time by `seconds` from the main greenlet; returns
        'ok', 'cap' (step cap) or 'exit' (loop had nothing left: cannot
        happen while our own timer is pending)."""
        try:
            gevent.sleep(seconds)
            return 'ok'
        except gevent.hub.LoopExit:
            return 'cap' if self.loop.cap_hit else 'exit'

    def wait(self, waitable, timeout):
        """wait from main for a greenlet/event with virtual timeout; True if
        finished."""
        try:
            if hasattr(waitable, 'join'):
                waitable.join(timeout)
                return waitable.dead if hasattr(waitable, 'dead') \
                    else waitable.ready()
            return bool(waitable.wait(timeout))
        except gevent.hub.LoopExit:
            return False

    def blocked_report(self, limit=12):
        out = []
        for g in self.loop.greenlets:
            if g.dead or g.gr_frame is None:
                continue
            fr = g.gr_frame
            where = None
            f = fr
            while f is not None:
                fn = f.f_code.co_filename.replace('\\', '/')
                i = fn.rfind('/slimta/')
                if i >= 0:
                    where = 'slimta/%s:%s:%d' % (fn[i + 8:], f.f_code.co_name,
                                                  f.f_lineno)
                    break
                f = f.f_back
            out.append(where or '%s:%s' % (
                os.path.basename(fr.f_code.co_filename), fr.f_code.co_name))
            if len(out) >= limit:
                break
        return out

    def kill_greenlet(self, g):
        """asynchronous kill; subclasses (slimta Queue/Edge) override kill()
        with other signatures, so go through the base class"""
        try:
            if isinstance(g, gevent.Greenlet):
                gevent.Greenlet.kill(g, block=False)
            else:
                self.loop.run_callback(g.throw, GreenletExit)
        except Exception:
            pass

    # -- teardown
    def close(self):
        global CURRENT
        self.detached = True
        loop = self.loop
        loop.on_step = None
        try:
            for rounds in range(6):
                alive = [g for g in loop.greenlets
                         if not g.dead and g.gr_frame is not None]
                if not alive:
                    break
                for g in alive:
                    self.kill_greenlet(g)
                loop.step_cap = loop.steps + 20000
                loop.cap_hit = False
                try:
                    gevent.sleep(3600.0 * (rounds + 1))
                except BaseException:
                    pass
        finally:
            try:
                self.hub.destroy(destroy_loop=True)
            except BaseException:
                pass
            set_hub(None)
            self.hub.world = None
            CURRENT = None
            _reset_slimta_globals()
            gc.collect()
            if self._gc_was:
                gc.enable()


def _reset_slimta_globals():
    m = sys.modules.get('slimta.diskstorage')
    if m is not None:
        af = getattr(m, 'AioFile', None)
        if af is not None:
            for k in ('_keep_awake_thread', '_keep_awake_refs'):
                if hasattr(af, k):
                    setattr(af, k, None if 'thread' in k else 0)
    m = sys.modules.get('slimta.bounce')
    if m is not None and hasattr(m, '_ORIG_BOUNCE'):
        h, f = m._ORIG_BOUNCE
        m.Bounce.header_template = h
        m.Bounce.footer_template = f
