"""SimObjectStore / SimMsgQueue: the object-store and message-queue method
sets that slimta.cloudstorage.aws defines (SimpleStorageService,
SimpleQueueService), modelled on that module: envelope pickled, metadata
JSON-encoded, 'attempts' and 'delivered_indexes' absent from the metadata
dict until first set, KeyError for a missing key, at-least-once queue
delivery.  Seeded latency per call."""
from __future__ import annotations

import json
import pickle
import uuid

import gevent

from .world import H

LAT_CLOUD = (0.0, 0.0, 0.001, 0.002, 0.005, 0.01)


class SimObjectStore(object):
    def __init__(self, world, label='s3', latency=LAT_CLOUD, prefix=''):
        self.world = world
        self.label = label
        self.latency = latency
        self.prefix = prefix
        self.objects = {}       # id -> {'body': bytes, 'meta': {name: str}}
        self.n = 0
        self.fail_at = {}

    def _call(self, name):
        self.n += 1
        k = self.n
        w = self.world
        w.log('S3', self.label, k, name)
        gevent.sleep(self.latency[H(w.sched_seed, 's3lat', self.label, k)
                                  % len(self.latency)])
        if self.fail_at.get(k):
            w.fault('object-store-error')
            raise IOError('injected object store error')
        return k

    def _done(self, k):
        gevent.sleep(self.latency[H(self.world.sched_seed, 's3lat2',
                                    self.label, k) % len(self.latency)])

    def _get(self, id):
        o = self.objects.get(id)
        if o is None:
            raise KeyError(id)
        return o

    def write_message(self, envelope, timestamp):
        raw = pickle.dumps(envelope, pickle.HIGHEST_PROTOCOL)
        id = self.prefix + str(uuid.uuid4())
        k = self._call('write_message')
        self.objects[id] = {'body': raw,
                            'meta': {'timestamp': json.dumps(timestamp),
                                     'attempts': '',
                                     'delivered_indexes': ''}}
        self._done(k)
        return id

    def set_message_meta(self, id, timestamp=None, attempts=None,
                         delivered_indexes=None):
        k = self._call('set_message_meta')
        o = self._get(id)
        if timestamp is not None:
            o['meta']['timestamp'] = json.dumps(timestamp)
        if attempts is not None:
            o['meta']['attempts'] = json.dumps(attempts)
        if delivered_indexes is not None:
            o['meta']['delivered_indexes'] = json.dumps(delivered_indexes)
        self._done(k)

    def delete_message(self, id):
        k = self._call('delete_message')
        self._get(id)
        del self.objects[id]
        self._done(k)

    def _meta(self, o):
        m = o['meta']
        meta = {'timestamp': json.loads(m['timestamp'])}
        if m['attempts']:
            meta['attempts'] = json.loads(m['attempts'])
        if m['delivered_indexes']:
            meta['delivered_indexes'] = json.loads(m['delivered_indexes'])
        return meta

    def get_message(self, id):
        k = self._call('get_message')
        o = self._get(id)
        env = pickle.loads(o['body'])
        meta = self._meta(o)
        self._done(k)
        return env, meta

    def get_message_meta(self, id):
        k = self._call('get_message_meta')
        meta = self._meta(self._get(id))
        self._done(k)
        return meta

    def list_messages(self):
        k = self._call('list_messages')
        ids = sorted(i for i in self.objects if i.startswith(self.prefix))
        ids.sort(key=lambda x: H(self.world.sched_seed, 's3list', k, x))
        self._done(k)
        for id in ids:
            try:
                meta = self.get_message_meta(id)
            except KeyError:
                continue
            yield (meta['timestamp'], id)


class SimMsgQueue(object):
    """SQS-like: at-least-once, unordered-ish, visibility until deleted"""

    def __init__(self, world, label='sqs', latency=LAT_CLOUD, poll_pause=1.0,
                 dup_every=0, fail_writes=()):
        self.world = world
        self.label = label
        self.latency = latency
        self.poll_pause = poll_pause
        self.msgs = []           # [msgid, timestamp, storage_id, inflight]
        self.n = 0
        self.mid = 0
        self.dup_every = dup_every
        self.fail_writes = set(fail_writes)
        self.writes = 0

    def _call(self, name):
        self.n += 1
        w = self.world
        w.log('SQS', self.label, self.n, name)
        gevent.sleep(self.latency[H(w.sched_seed, 'sqslat', self.label, self.n)
                                  % len(self.latency)])

    def queue_message(self, storage_id, timestamp):
        self._call('queue_message')
        self.writes += 1
        if self.writes in self.fail_writes:
            self.world.fault('msg-queue-write-error')
            raise IOError('injected message queue error')
        self.mid += 1
        self.msgs.append([self.mid, timestamp, storage_id, False])
        if self.dup_every and self.writes % self.dup_every == 0:
            self.mid += 1
            self.msgs.append([self.mid, timestamp, storage_id, False])
            self.world.fault('msg-queue-duplicate')

    def poll(self):
        self._call('poll')
        batch = [m for m in self.msgs if not m[3]][:10]
        for m in batch:
            m[3] = True
        for m in batch:
            yield (m[1], m[2], m[0])

    def delete(self, message_id):
        self._call('delete')
        self.msgs = [m for m in self.msgs if m[0] != message_id]

    def sleep(self):
        gevent.sleep(self.poll_pause)
