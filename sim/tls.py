"""Toy TLS: a typed, length-prefixed, masked record layer with a two-message
handshake.  What the properties need from TLS is only (a) plaintext injected
before/after the handshake is not application data, (b) the socket object
changes identity (IO.encrypted), (c) handshakes block on the peer.  No
cryptography is modelled.
"""
from __future__ import annotations

import ssl as _ssl
import struct

REC_HANDSHAKE = 0x16
REC_DATA = 0x17
REC_ALERT = 0x15
MASK = 0x5A


def _mask(b):
    return bytes(x ^ MASK for x in b)


def record(kind, payload=b''):
    return struct.pack('>BH', kind, len(payload)) + _mask(payload)


class SimTLSSocket(object):
    """wraps a SimSocket after a completed handshake"""

    def __init__(self, sock, server_side, leftover=b''):
        self._sock = sock
        self.server_side = server_side
        self._raw = bytearray(leftover)     # undecoded record bytes
        self._plain = bytearray()           # decoded application data
        self._eof = False
        self.world = sock.world
        self.label = sock.label + '/tls'

    # --- record plumbing
    def _fill(self):
        """read until at least one full record is decoded or EOF"""
        while True:
            raw = self._raw
            if len(raw) >= 3:
                kind, n = struct.unpack('>BH', bytes(raw[:3]))
                if kind not in (REC_DATA, REC_ALERT, REC_HANDSHAKE):
                    raise _ssl.SSLError(1, '[SSL] wrong version number '
                                        '(plaintext inside TLS stream)')
                if len(raw) >= 3 + n:
                    payload = _mask(bytes(raw[3:3 + n]))
                    del raw[:3 + n]
                    if kind == REC_DATA:
                        self._plain += payload
                        return
                    if kind == REC_ALERT:
                        self._eof = True
                        return
                    continue
            data = self._sock.recv(4096)
            if data == b'':
                self._eof = True
                return
            raw += data

    def recv(self, n, flags=0):
        while not self._plain and not self._eof:
            self._fill()
        k = min(n, len(self._plain))
        out = bytes(self._plain[:k])
        del self._plain[:k]
        return out

    def recv_into(self, buf, nbytes=0, flags=0):
        view = memoryview(buf)
        data = self.recv(nbytes or len(view))
        view[:len(data)] = data
        return len(data)

    def read(self, n=1024):
        return self.recv(n)

    def sendall(self, data, flags=0):
        data = bytes(data)
        # one record per <=16384 bytes
        for i in range(0, len(data), 16384):
            self._sock.sendall(record(REC_DATA, data[i:i + 16384]))

    def send(self, data, flags=0):
        self.sendall(data)
        return len(data)

    write = send

    def pending(self):
        return len(self._plain)

    def unwrap(self):
        try:
            self._sock.sendall(record(REC_ALERT, b'\x01\x00'))
        except OSError:
            pass
        return self._sock

    def close(self):
        self._sock.close()

    def shutdown(self, how):
        self._sock.shutdown(how)

    def fileno(self):
        return self._sock.fileno()

    def getpeername(self):
        return self._sock.getpeername()

    def getsockname(self):
        return self._sock.getsockname()

    def settimeout(self, t):
        self._sock.settimeout(t)

    def gettimeout(self):
        return self._sock.gettimeout()

    def setsockopt(self, *a):
        pass

    def cipher(self):
        return ('SIM-TLS', 'TLSv1.3', 256)

    def version(self):
        return 'TLSv1.3'

    def getpeercert(self, binary_form=False):
        return None

    @property
    def closed(self):
        return self._sock.closed

    def unread_plain(self):
        return bytes(self._plain)


def _read_record(sock, buf):
    """read exactly one record from sock using/refilling buf (bytearray);
    raises SSLError on bytes that are not a record."""
    while True:
        if len(buf) >= 1 and buf[0] not in (REC_HANDSHAKE, REC_DATA,
                                            REC_ALERT):
            raise _ssl.SSLError(1, '[SSL] wrong version number')
        if len(buf) >= 3:
            kind, n = struct.unpack('>BH', bytes(buf[:3]))
            if len(buf) >= 3 + n:
                payload = _mask(bytes(buf[3:3 + n]))
                del buf[:3 + n]
                return kind, payload
        data = sock.recv(4096)
        if data == b'':
            raise _ssl.SSLError(8, '[SSL] EOF occurred in violation of '
                                'protocol')
        buf += data


class SimTLSContext(object):
    """stands in for ssl.SSLContext; wrap_socket performs the handshake"""

    def __init__(self, fail_handshake=False):
        self.fail_handshake = fail_handshake
        self.check_hostname = False
        self.verify_mode = 0

    def session_stats(self):
        return {'number': 0, 'connect': 0, 'accept': 0}

    def wrap_socket(self, sock, server_side=False, server_hostname=None,
                    do_handshake_on_connect=True, **kw):
        buf = bytearray()
        world = sock.world
        if server_side:
            kind, payload = _read_record(sock, buf)
            if kind != REC_HANDSHAKE or payload != b'client-hello':
                raise _ssl.SSLError(1, '[SSL] unexpected message')
            if self.fail_handshake:
                raise _ssl.SSLError(1, '[SSL] handshake failure (injected)')
            sock.sendall(record(REC_HANDSHAKE, b'server-hello'))
        else:
            sock.sendall(record(REC_HANDSHAKE, b'client-hello'))
            kind, payload = _read_record(sock, buf)
            if kind != REC_HANDSHAKE or payload != b'server-hello':
                raise _ssl.SSLError(1, '[SSL] unexpected message')
        world.log('TLS', sock.label, 'server' if server_side else 'client')
        return SimTLSSocket(sock, server_side, leftover=bytes(buf))


def install_tls_seam():
    """IO.encrypted is isinstance(socket, slimta.smtp.io.SSLSocket)"""
    import slimta.smtp.io as sio
    sio.SSLSocket = SimTLSSocket
