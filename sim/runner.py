"""Seeded search driver: fans scenario seeds out to forked workers, aggregates
reach counters, minimises and confirms violations, matches known findings,
writes evidence.  One integer (VERIF_SEED) decides everything."""
from __future__ import annotations

import argparse
import faulthandler
import importlib
import json
import os
import signal
import subprocess
import sys
import time
import traceback
from concurrent.futures import ProcessPoolExecutor, as_completed
from concurrent.futures.process import BrokenProcessPool
import multiprocessing

VERIF = os.path.dirname(os.path.dirname(os.path.abspath(__file__)))
PERF = time.perf_counter
DEFAULT_SEED = 20260925
MASK48 = (1 << 48) - 1


def _setup_path():
    repo = os.environ.get('VERIF_REPO') or '/repo'
    here = os.path.dirname(os.path.abspath(__file__))
    while here in sys.path:
        sys.path.remove(here)     # never let sim/*.py shadow real modules
    if VERIF not in sys.path:
        sys.path.insert(0, VERIF)
    if repo in sys.path:
        sys.path.remove(repo)
    sys.path.insert(0, repo)
    return repo


def load_prop(pid):
    _setup_path()
    return importlib.import_module('props.' + pid.lower())


def seed_for(base, pid, i):
    from sim.world import H
    return H(base, pid, i) & MASK48


def signature(v):
    return '%s|%s' % (v['clause'], json.dumps(v.get('detail') or {},
                                              sort_keys=True))


class WallTimeout(BaseException):
    pass


def _alarm(signum, frame):
    raise WallTimeout()


def run_one(mod, scn, wall=120.0, debug=False):
    """execute one scenario with a CPU-time guard; never raises"""
    # the guard counts this process's CPU time, not wall-clock time: a
    # loaded machine must not turn a long scenario into a harness error
    # (a scenario that blocks without using CPU is caught by the batch
    # watchdog instead)
    signal.signal(signal.SIGPROF, _alarm)
    signal.setitimer(signal.ITIMER_PROF, wall)
    try:
        try:
            return mod.execute(scn, debug=debug) if debug else mod.execute(scn)
        finally:
            signal.setitimer(signal.ITIMER_PROF, 0)
    except WallTimeout:
        _force_world_close()
        return {'violations': [], 'digest': 'walltimeout', 'nontrivial': False,
                'probes': {}, 'faults': {}, 'states': [], 'steps': 0,
                'sim_s': 0.0, 'inconclusive': True,
                'harness_errors': ['CPU-time guard (%ss) hit executing '
                                   'scenario' % wall]}
    except BaseException as e:
        _force_world_close()
        return {'violations': [], 'digest': 'error', 'nontrivial': False,
                'probes': {}, 'faults': {}, 'states': [], 'steps': 0,
                'sim_s': 0.0, 'inconclusive': True,
                'harness_errors': ['harness exception: %s\n%s' % (
                    e, traceback.format_exc())]}


def _force_world_close():
    try:
        from sim import world as w
        if w.CURRENT is not None:
            w.CURRENT.close()
    except BaseException:
        try:
            from sim import world as w
            w.CURRENT = None
        except BaseException:
            pass


_WORKER_PRIOR = []      # [first, last] index ranges this worker process has
                        # executed so far (chunks are contiguous)


def _worker_chunk(args):
    pid, base, tier, idxs, keep_digests = args
    faulthandler.enable()
    mod = load_prop(pid)
    reach = _reach_start(pid)
    agg = {'n': 0, 'nontrivial': 0, 'digests': [], 'probes': {}, 'faults': {},
           'states': set(), 'steps': 0, 'sim_s': 0.0, 'inconclusive': 0,
           'violations': [], 'harness_errors': [], 'samples': [],
           'wall': 0.0}
    t0 = PERF()
    for i in idxs:
        seed = seed_for(base, pid, i)
        scn = mod.generate(seed, tier)
        r = run_one(mod, scn)
        agg['n'] += 1
        if r.get('nontrivial'):
            agg['nontrivial'] += 1
            agg['digests'].append(r['digest'][:16])
        for k, v in (r.get('probes') or {}).items():
            agg['probes'][k] = agg['probes'].get(k, 0) + v
        for k, v in (r.get('faults') or {}).items():
            agg['faults'][k] = agg['faults'].get(k, 0) + v
        agg['states'].update(r.get('states') or ())
        agg['steps'] += r.get('steps', 0)
        agg['sim_s'] += r.get('sim_s', 0.0)
        if r.get('inconclusive'):
            agg['inconclusive'] += 1
        if r.get('harness_errors'):
            if len(agg['harness_errors']) < 5:
                agg['harness_errors'].append(
                    {'index': i, 'seed': seed, 'errors': r['harness_errors'][:3]})
        if r.get('violations'):
            if len(agg['violations']) < 40:
                agg['violations'].append(
                    {'index': i, 'seed': seed, 'violations': r['violations'],
                     'prior': [list(x) for x in _WORKER_PRIOR]})
            else:
                agg['violations_more'] = agg.get('violations_more', 0) + 1
        if _WORKER_PRIOR and _WORKER_PRIOR[-1][1] == i - 1:
            _WORKER_PRIOR[-1][1] = i
        else:
            _WORKER_PRIOR.append([i, i])
        if len(agg['samples']) < 2 and r.get('nontrivial'):
            agg['samples'].append({'index': i, 'seed': seed,
                                   'summary': r.get('summary')})
    agg['states'] = list(agg['states'])
    agg['wall'] = PERF() - t0
    agg['reach'] = sorted(reach) if reach is not None else []
    return agg


_REACH = {'set': None, 'files': None}


def anchored_files(pid):
    try:
        with open(os.path.join(VERIF, 'properties.jsonl')) as f:
            for line in f:
                p = json.loads(line)
                if p['id'] == pid:
                    return [x for x in p['anchors']['files']
                            if x.endswith('.py')]
    except Exception:
        pass
    return []


def _reach_start(pid):
    """line reach over the files the property is anchored in, via
    sys.monitoring (each location is disabled after its first hit, so the
    cost is paid once per line per worker)"""
    if _REACH['set'] is not None:
        return _REACH['set']
    mon = getattr(sys, 'monitoring', None)
    if mon is None or os.environ.get('VERIF_REACH') == '0':
        return None
    files = tuple('/' + f for f in anchored_files(pid))
    hit = set()
    _REACH['set'] = hit
    tool = 3

    def on_line(code, line):
        fn = code.co_filename
        if fn.endswith(files):
            i = fn.rfind('/slimta/')
            hit.add((fn[i + 1:], line))
        return mon.DISABLE
    try:
        mon.use_tool_id(tool, 'verif-reach')
        mon.register_callback(tool, mon.events.LINE, on_line)
        mon.set_events(tool, mon.events.LINE)
    except Exception:
        return None
    return hit


def executable_lines(repo, relfiles):
    out = {}
    for rf in relfiles:
        path = os.path.join(repo, rf)
        try:
            src = open(path).read()
            top = compile(src, path, 'exec')
        except Exception:
            continue
        lines = set()
        stack = [top]
        while stack:
            c = stack.pop()
            for _, _, ln in c.co_lines():
                if ln:
                    lines.add(ln)
            for k in c.co_consts:
                if hasattr(k, 'co_lines'):
                    stack.append(k)
        # module-level lines run at import, before monitoring starts
        out[rf] = lines
    return out


def _still_violates(mod, scn, clause_sig, cpu_limit=None):
    c0 = time.process_time()
    r = run_one(mod, scn, wall=cpu_limit or 120.0)
    if r.get('harness_errors'):
        return None
    if cpu_limit is not None and time.process_time() - c0 > cpu_limit:
        return None
    for v in r.get('violations') or ():
        if signature(v) == clause_sig:
            return v
    return None


def shrink(mod, scn, sig, budget_runs=400, budget_s=45.0):
    t0 = PERF()
    runs = 0
    cur = scn
    clause = sig.split('|', 1)[0]
    if not hasattr(mod, 'shrink_candidates'):
        return cur, runs
    # a smaller scenario is no use if it takes far longer to execute (a
    # minimised run-away loop spins until the step cap): candidates are
    # given 3x the CPU time of the original, at least 5 s
    c0 = time.process_time()
    if _still_violates(mod, scn, sig) is None:
        return cur, runs
    limit = max(5.0, 3.0 * (time.process_time() - c0))
    progress = True
    while progress and runs < budget_runs and PERF() - t0 < budget_s:
        progress = False
        for cand in mod.shrink_candidates(cur, clause):
            if runs >= budget_runs or PERF() - t0 >= budget_s:
                break
            runs += 1
            if _still_violates(mod, cand, sig, cpu_limit=limit) is not None:
                cur = cand
                progress = True
                break
    return cur, runs


def load_known():
    p = os.path.join(VERIF, 'known_findings.json')
    if not os.path.exists(p):
        return []
    with open(p) as f:
        return json.load(f).get('findings', [])


def replay_file(pid, path, quiet=False):
    """re-execute a replay file in this (fresh) process; returns exit code"""
    mod = load_prop(pid)
    with open(path) as f:
        doc = json.load(f)
    scn = doc['scenario']
    for hs_ in doc.get('history_seeds') or ():
        # scenarios the same process had executed before: the violation
        # depends on state the code under test kept across them
        run_one(mod, mod.generate(hs_, doc.get('tier') or 'quick'))
    r = run_one(mod, scn, wall=300.0)
    print('DIGEST %s' % r.get('digest'))
    sigs = [signature(v) for v in r.get('violations') or ()]
    exp = doc.get('expected_signature')
    ok_sig = exp in sigs if exp else bool(sigs)
    ok_dig = (doc.get('expected_digest') in (None, r.get('digest')))
    if not quiet:
        for v in r.get('violations') or ():
            print('replayed violation: %s :: %s' % (signature(v), v.get('msg')))
        print('digest', r.get('digest'), 'expected', doc.get('expected_digest'))
    if r.get('harness_errors'):
        print('HARNESS-ERROR during replay: %s' % r['harness_errors'][:2])
        return 2
    if ok_sig and ok_dig:
        print('VIOLATION property=%s replay=%s' % (pid, path))
        return 1
    if ok_sig and not ok_dig:
        print('REPLAY-MISMATCH: same violation, different event-log digest')
        return 2
    print('replay did not reproduce the violation (property holds on this '
          'tree for this scenario)')
    return 0


def _history_report(pid, mod, rec, sig, tier, base, path, occurrences):
    """A violation that does not reproduce when its scenario is run alone:
    replay it after the scenarios the same worker process had run before it
    (state kept across sessions by the code under test - a cache, a class
    attribute, a mutable default - is part of the history).  The history is
    minimised by removing blocks of it while the violation persists; every
    trial is a fresh interpreter.  Returns the confirmed message or None."""
    scn = mod.generate(rec['seed'], tier)
    hist = [seed_for(base, pid, i) for a, b in rec.get('prior') or ()
            for i in range(a, b + 1)]

    def trial(h):
        with open(path, 'w') as f:
            json.dump({'property': pid, 'verif_seed': base,
                       'index': rec['index'], 'scenario_seed': rec['seed'],
                       'expected_signature': sig, 'tier': tier,
                       'history_seeds': h,
                       'note': 'reproduces only after the listed earlier '
                               'scenarios ran in the same process',
                       'occurrences_in_batch': occurrences,
                       'scenario': scn}, f, indent=1, sort_keys=True)
        cp = subprocess.run([sys.executable, os.path.abspath(__file__), pid,
                             '--replay', path, '--quiet-replay'],
                            capture_output=True, text=True,
                            env=dict(os.environ), timeout=1800)
        dig = None
        for line in cp.stdout.splitlines():
            if line.startswith('DIGEST '):
                dig = line.split()[1]
        return cp.returncode == 1, dig
    ok, dig = trial(hist)
    if not ok:
        return None
    t0 = PERF()
    n = 2
    trials = 0
    while len(hist) >= 1 and trials < 14 and PERF() - t0 < 240:
        size = max(1, len(hist) // n)
        removed = False
        for a in range(0, len(hist), size):
            cand = hist[:a] + hist[a + size:]
            trials += 1
            ok2, d2 = trial(cand)
            if ok2:
                hist, dig, removed = cand, d2, True
                n = max(2, n - 1)
                break
            if trials >= 14 or PERF() - t0 >= 240:
                break
        if not removed:
            if size == 1:
                break
            n = min(len(hist), n * 2)
    ok, dig = trial(hist)
    if not ok:
        return None
    with open(path) as f:
        doc = json.load(f)
    doc['expected_digest'] = dig
    doc['history_minimised_with'] = trials
    with open(path, 'w') as f:
        json.dump(doc, f, indent=1, sort_keys=True)
    ok, dig2 = trial_confirm(pid, path)
    if not ok:
        return None
    return ('after %d earlier scenario(s) in the same process' % len(hist)) \
        if hist else 'in a fresh process (un-minimised scenario)'


def trial_confirm(pid, path):
    cp = subprocess.run([sys.executable, os.path.abspath(__file__), pid,
                         '--replay', path, '--quiet-replay'],
                        capture_output=True, text=True, env=dict(os.environ),
                        timeout=1800)
    return cp.returncode == 1, None


def fixed_witness_paths(pid):
    import glob
    return sorted(glob.glob(os.path.join(VERIF, 'known', 'fixed',
                                         pid + '_*.json')))


def check_fixed_witnesses(mod, pid):
    """witness scenarios of repaired defects are re-executed on every run; a
    violation that returns is reported like any other"""
    code = 0
    regressed = []
    known_sigs = set(k['signature'] for k in load_known()
                     if k.get('property') == pid and k.get('status') == 'known')
    for wp in fixed_witness_paths(pid):
        with open(wp) as f:
            doc = json.load(f)
        r = run_one(mod, doc['scenario'])
        if r.get('harness_errors'):
            print('HARNESS-ERROR: witness %s: %s' % (wp, r['harness_errors'][:1]))
            return 2, regressed
        vs = [v for v in r.get('violations') or ()
              if signature(v) not in known_sigs]
        if vs:
            os.makedirs(os.path.join(VERIF, 'replays'), exist_ok=True)
            path = os.path.join(VERIF, 'replays', 'regressed_' +
                                os.path.basename(wp))
            with open(path, 'w') as f:
                json.dump({'property': pid,
                           'expected_signature': signature(vs[0]),
                           'expected_digest': r['digest'],
                           'message': vs[0].get('msg'),
                           'regression_of': os.path.relpath(wp, VERIF),
                           'scenario': doc['scenario']}, f, indent=1,
                          sort_keys=True)
            print('violation (repaired defect has returned): %s\n  %s' % (
                signature(vs[0]), vs[0].get('msg')))
            print('VIOLATION property=%s replay=%s' % (pid, path), flush=True)
            regressed.append(signature(vs[0]))
            code = 1
    return code, regressed


def _reach_report(pid, hit):
    repo = os.environ.get('VERIF_REPO') or '/repo'
    files = anchored_files(pid)
    ex = executable_lines(repo, files)
    hit = hit or set()
    rep = {}
    tot_h = tot_e = 0
    for rf, lines in ex.items():
        # count only lines inside functions (def bodies): lines that can run
        # after import
        h = set(ln for f, ln in hit if f == rf)
        body = set(lines)
        rep[rf] = {'lines_reached': len(h & body), 'executable_lines': len(body)}
        tot_h += len(h & body)
        tot_e += len(body)
    rep['total'] = {'lines_reached': tot_h, 'executable_lines': tot_e,
                    'note': 'executable_lines includes import-time lines '
                            '(class/def/import statements), which run before '
                            'monitoring starts and are never counted as '
                            'reached'}
    return rep


def _limit_memory():
    """Scenarios run code that may have been changed: a corrupted pickle or
    a runaway loop can ask for tens of gigabytes.  Cap the address space so
    that this surfaces as MemoryError inside the scenario (and is judged
    there) instead of as the kernel killing a worker."""
    try:
        import resource
        cap = int(os.environ.get('VERIF_MEM_CAP_GB') or 6) << 30
        soft, hard = resource.getrlimit(resource.RLIMIT_AS)
        if hard == resource.RLIM_INFINITY or hard > cap:
            resource.setrlimit(resource.RLIMIT_AS, (cap, hard))
    except Exception:
        pass


def main(argv=None):
    _limit_memory()
    ap = argparse.ArgumentParser()
    ap.add_argument('prop')
    ap.add_argument('--tier', default=os.environ.get('VERIF_TIER') or 'quick')
    ap.add_argument('--replay')
    ap.add_argument('--runs', type=int, default=None)
    ap.add_argument('--workers', type=int, default=None)
    ap.add_argument('--one', type=int, default=None,
                    help='run a single scenario index verbosely')
    ap.add_argument('--no-evidence', action='store_true')
    ap.add_argument('--quiet-replay', action='store_true')
    args = ap.parse_args(argv)
    pid = args.prop.upper()
    _setup_path()
    if args.replay:
        return replay_file(pid, args.replay, quiet=args.quiet_replay)
    mod = load_prop(pid)
    base = int(os.environ.get('VERIF_SEED') or DEFAULT_SEED)
    tier = args.tier if args.tier in ('quick', 'thorough') else 'quick'
    if args.one is not None:
        seed = seed_for(base, pid, args.one)
        scn = mod.generate(seed, tier)
        print(json.dumps(scn, indent=1)[:6000])
        r = run_one(mod, scn, debug=True)
        print(json.dumps({k: v for k, v in r.items() if k != 'states'},
                         indent=1, default=repr)[:8000])
        return 0
    print('VERIF_SEED=%d property=%s tier=%s' % (base, pid, tier), flush=True)
    n = args.runs or int(os.environ.get('VERIF_RUNS') or 0) or mod.BUDGET[tier]
    workers = args.workers or int(os.environ.get('VERIF_WORKERS') or 0) or \
        min(16, os.cpu_count() or 1)
    t0 = PERF()
    chunk = max(1, min(200, n // (workers * 4) or 1))
    jobs = []
    for s in range(0, n, chunk):
        jobs.append((pid, base, tier, list(range(s, min(n, s + chunk))), True))
    total = {'n': 0, 'nontrivial': 0, 'digests': set(), 'probes': {},
             'faults': {}, 'states': set(), 'steps': 0, 'sim_s': 0.0,
             'inconclusive': 0, 'violations': [], 'harness_errors': [],
             'samples': [], 'cpu': 0.0, 'violations_more': 0}
    wall_cap = float(os.environ.get('VERIF_WALL_CAP') or
                     (1500 if tier == 'quick' else 6 * 3600))
    ctx = multiprocessing.get_context('fork')
    try:
        with ProcessPoolExecutor(max_workers=workers, mp_context=ctx) as ex:
            futs = [ex.submit(_worker_chunk, j) for j in jobs]
            for f in as_completed(futs, timeout=wall_cap):
                a = f.result()
                total['n'] += a['n']
                total['nontrivial'] += a['nontrivial']
                total['digests'].update(a['digests'])
                for k, v in a['probes'].items():
                    total['probes'][k] = total['probes'].get(k, 0) + v
                for k, v in a['faults'].items():
                    total['faults'][k] = total['faults'].get(k, 0) + v
                total['states'].update(a['states'])
                total['steps'] += a['steps']
                total['sim_s'] += a['sim_s']
                total['inconclusive'] += a['inconclusive']
                total['violations'].extend(a['violations'])
                total['violations_more'] += a.get('violations_more', 0)
                total['harness_errors'].extend(a['harness_errors'])
                if len(total['samples']) < 3:
                    total['samples'].extend(a['samples'])
                total['cpu'] += a['wall']
                total.setdefault('reach', set()).update(
                    tuple(x) for x in a.get('reach') or ())
    except BrokenProcessPool as e:
        print('HARNESS-ERROR: worker process died: %s' % e)
        return 2
    except TimeoutError:
        print('HARNESS-ERROR: wall-clock watchdog (%ss)' % wall_cap)
        return 2
    wall = PERF() - t0
    # (after the batch: the workers are forked from a parent that has not
    # executed any scenario yet, so what a worker did is a function of the
    # indices it ran - see _history_report)
    regress_code, regressed = check_fixed_witnesses(mod, pid)
    if regress_code == 2:
        return 2
    if total['harness_errors']:
        he = sorted(total['harness_errors'], key=lambda x: x['index'])
        print('HARNESS-ERROR: %d run(s) hit a harness error; first: index=%d '
              'seed=%d\n%s' % (len(he), he[0]['index'], he[0]['seed'],
                               '\n'.join(he[0]['errors'])[:3000]))
        return 2

    # --- violations: group by signature, lowest index first
    known = [k for k in load_known() if k.get('property') == pid]
    known_sigs = {k['signature']: k for k in known
                  if k.get('status') == 'known'}
    by_sig = {}
    for rec in sorted(total['violations'], key=lambda x: x['index']):
        for v in rec['violations']:
            s = signature(v)
            by_sig.setdefault(s, []).append((rec, v))
    new_reports = []
    known_hits = {}
    for s, lst in by_sig.items():
        if s in known_sigs:
            known_hits[s] = len(lst)
            continue
        new_reports.append((s, lst))
    exit_code = regress_code
    # known findings: execute each witness; print KNOWN-FINDING if it still
    # violates with its signature
    known_lines = []
    for s, k in known_sigs.items():
        wpath = os.path.join(VERIF, k['witness'])
        still = False
        try:
            with open(wpath) as f:
                doc = json.load(f)
            still = _still_violates(mod, doc['scenario'], s) is not None
        except Exception as e:
            print('HARNESS-ERROR: cannot run known-finding witness %s: %s'
                  % (wpath, e))
            return 2
        if still or s in known_hits:
            line = 'KNOWN-FINDING: property=%s %s %s' % (pid, s, k.get(
                'summary', ''))
            print(line)
            known_lines.append(line)
    reported = []
    os.makedirs(os.path.join(VERIF, 'replays'), exist_ok=True)
    for s, lst in sorted(new_reports, key=lambda x: x[1][0][0]['index'])[:4]:
        rec, v = lst[0]
        scn = mod.generate(rec['seed'], tier)
        small, sruns = shrink(mod, scn, s)
        # final execution for digest + message
        r = run_one(mod, small)
        vv = [x for x in r.get('violations') or () if signature(x) == s]
        if not vv:
            small = scn
            r = run_one(mod, small)
            vv = [x for x in r.get('violations') or () if signature(x) == s]
        name = '%s_%s_%d.json' % (pid, ''.join(
            c if c.isalnum() else '-' for c in s.split('|')[0]), rec['seed'])
        path = os.path.join(VERIF, 'replays', name)
        if not vv:
            how = _history_report(pid, mod, rec, s, tier, base, path,
                                  len(lst))
            if how is None:
                print('HARNESS-ERROR: violation %s at index %d seed %d did '
                      'not reproduce in the parent process, nor after the '
                      'scenarios its worker had run before it '
                      '(nondeterminism)' % (s, rec['index'], rec['seed']))
                return 2
            print('violation: %s\n  %s\n  (seen %d time(s) in this batch; '
                  'reproduces only %s)' % (s, v.get('msg'), len(lst), how))
            print('VIOLATION property=%s replay=%s' % (pid, path), flush=True)
            reported.append(s)
            exit_code = 1
            continue
        with open(path, 'w') as f:
            json.dump({'property': pid, 'verif_seed': base,
                       'index': rec['index'], 'scenario_seed': rec['seed'],
                       'expected_signature': s,
                       'expected_digest': r['digest'],
                       'message': vv[0].get('msg'),
                       'shrink_runs': sruns,
                       'occurrences_in_batch': len(lst),
                       'scenario': small}, f, indent=1, sort_keys=True)
        # confirm in a fresh interpreter
        env = dict(os.environ)
        cp = subprocess.run([sys.executable, os.path.abspath(__file__), pid,
                             '--replay', path, '--quiet-replay'],
                            capture_output=True, text=True, env=env,
                            timeout=600)
        if cp.returncode == 2 and 'REPLAY-MISMATCH' in cp.stdout:
            # The violation reproduces in a fresh interpreter, its event log
            # does not (the change under test made the run depend on
            # something the simulator does not control, e.g. the iteration
            # order of a set of objects).  Keep the replay without a digest
            # and say so, if it reproduces twice more.
            with open(path) as f:
                doc = json.load(f)
            doc['expected_digest'] = None
            doc['digest_unstable'] = ('the violation reproduces, the event '
                                      'log differs between executions')
            with open(path, 'w') as f:
                json.dump(doc, f, indent=1, sort_keys=True)
            if trial_confirm(pid, path)[0] and trial_confirm(pid, path)[0]:
                print('violation: %s\n  %s\n  (seen %d time(s) in this batch; '
                      'minimised with %d re-executions; event log not '
                      'stable between executions)' % (
                          s, vv[0].get('msg'), len(lst), sruns))
                print('VIOLATION property=%s replay=%s' % (pid, path),
                      flush=True)
                reported.append(s)
                exit_code = 1
                continue
        if cp.returncode != 1:
            how = _history_report(pid, mod, rec, s, tier, base, path,
                                  len(lst))
            if how is None:
                print('HARNESS-ERROR: replay %s did not reproduce in a fresh '
                      'process (rc=%d), nor after the scenarios its worker '
                      'had run before it: %s' % (
                          path, cp.returncode,
                          cp.stdout[-2000:] + cp.stderr[-2000:]))
                return 2
            print('violation: %s\n  %s\n  (seen %d time(s) in this batch; '
                  'reproduces only %s)' % (s, v.get('msg'), len(lst), how))
            print('VIOLATION property=%s replay=%s' % (pid, path), flush=True)
            reported.append(s)
            exit_code = 1
            continue
        print('violation: %s\n  %s\n  (seen %d time(s) in this batch; '
              'minimised with %d re-executions)' % (
                  s, vv[0].get('msg'), len(lst), sruns))
        print('VIOLATION property=%s replay=%s' % (pid, path), flush=True)
        reported.append(s)
        exit_code = 1

    # --- evidence
    if not args.no_evidence:
        ev = {
            'property_id': pid, 'tier': tier, 'seed': base,
            'level': getattr(mod, 'LEVEL', 'exploration'),
            'coverage': {
                'evaluations': total['n'],
                'distinct_nontrivial': len(total['digests']),
                'rule': mod.RULE,
                'samples': total['samples'][:3] or [{'note': 'no non-trivial '
                                                     'sample'}],
                'states': len(total['states']),
                'states_measure': getattr(mod, 'STATES_MEASURE',
                                          'distinct abstract states (see rule)'),
                'nontrivial_runs': total['nontrivial'],
                'runs_per_hour': int(total['n'] / wall * 3600) if wall else 0,
                'seeds': {'base': base,
                          'first': seed_for(base, pid, 0),
                          'last': seed_for(base, pid, max(0, n - 1)),
                          'derivation': 'H(VERIF_SEED, property, index)'},
                'sim_seconds_total': round(total['sim_s'], 3),
                'steps_total': total['steps'],
                'inconclusive_runs': total['inconclusive'],
                'faults_fired': total['faults'],
                'probes': total['probes'],
                'probes_at_zero': [p for p in getattr(mod, 'PROBES', ())
                                   if not total['probes'].get(p)],
                'components': mod.COMPONENTS,
                'anchored_line_reach': _reach_report(pid, total.get('reach')),
                'workers': workers,
                'known_findings': known_lines,
                'violation_signatures': reported + regressed,
                'fixed_witnesses_rechecked': len(fixed_witness_paths(pid)),
            },
            'assumptions': getattr(mod, 'ASSUMPTIONS', []) + [
                'SimLoop schedules callbacks FIFO and timers by virtual due '
                'time like the pinned gevent loop (selftest/fidelity.py)',
                'a clean batch is evidence over the sampled scenarios, not '
                'proof'],
            'wall_s': round(wall, 2),
            'violations': len(reported) + len(regressed),
        }
        os.makedirs(os.path.join(VERIF, 'evidence'), exist_ok=True)
        with open(os.path.join(VERIF, 'evidence', pid + '.json'), 'w') as f:
            json.dump(ev, f, indent=1, sort_keys=True)
    print('%s %s: %d runs, %d distinct non-trivial, %d steps, %.0f sim-s, '
          '%d inconclusive, %.1fs wall (%.0f runs/s), violations=%d known=%d'
          % (pid, tier, total['n'], len(total['digests']), total['steps'],
             total['sim_s'], total['inconclusive'], wall,
             total['n'] / wall if wall else 0, len(reported),
             len(known_lines)), flush=True)
    return exit_code


if __name__ == '__main__':
    sys.exit(main())
