"""SimRedis: the dozen redis commands RedisStorage uses, with redis typing
(bytes out, WRONGTYPE on a list key) and seeded per-command latency.
Each command = sleep(lat_a); atomic effect; sleep(lat_b)."""
from __future__ import annotations

import fnmatch

import gevent
from gevent.event import Event

from .world import H

LAT_REDIS = (0.0, 0.0, 0.0005, 0.001, 0.002, 0.005)


def _b(v):
    if isinstance(v, bytes):
        return v
    if isinstance(v, bool):
        raise TypeError('redis: bool not allowed')
    if isinstance(v, int):
        return str(v).encode()
    if isinstance(v, float):
        return repr(v).encode()
    if isinstance(v, str):
        return v.encode('utf-8')
    raise TypeError('Invalid input of type %s' % type(v).__name__)


class SimRedis(object):
    def __init__(self, world, label='redis', latency=LAT_REDIS):
        import redis as _redis
        self.ResponseError = _redis.ResponseError
        self.ConnectionError = _redis.ConnectionError
        self.world = world
        self.label = label
        self.latency = latency
        self.data = {}           # key(bytes) -> dict(bytes->bytes) | list
        self.n = 0
        self.list_event = Event()
        self.fail_at = {}        # command ordinal -> 'conn'
        self.dup_announce = 0.0  # unused (at-most-once list semantics)

    def _pre(self, name):
        self.n += 1
        k = self.n
        w = self.world
        w.log('RDS', self.label, k, name)
        lat = self.latency[H(w.sched_seed, 'rlat', self.label, k, 'a')
                           % len(self.latency)]
        gevent.sleep(lat)
        if self.fail_at.get(k):
            w.fault('redis-connection-error')
            raise self.ConnectionError('injected connection error')
        return k

    def _post(self, k):
        lat = self.latency[H(self.world.sched_seed, 'rlat', self.label, k, 'b')
                           % len(self.latency)]
        gevent.sleep(lat)

    def _hash(self, key, create=False):
        key = _b(key)
        v = self.data.get(key)
        if v is None:
            if not create:
                return None
            v = self.data[key] = {}
        if not isinstance(v, dict):
            raise self.ResponseError('WRONGTYPE Operation against a key '
                                     'holding the wrong kind of value')
        return v

    # ---- commands
    def hsetnx(self, key, field, value):
        k = self._pre('hsetnx')
        h = self._hash(key, create=True)
        f = _b(field)
        if f in h:
            r = 0
        else:
            h[f] = _b(value)
            r = 1
        self._post(k)
        return r

    def _hmset(self, key, mapping):
        h = self._hash(key, create=True)
        for f, v in mapping.items():
            h[_b(f)] = _b(v)
        return True

    def hmset(self, key, mapping):
        k = self._pre('hmset')
        r = self._hmset(key, mapping)
        self._post(k)
        return r

    def hset(self, key, field, value):
        k = self._pre('hset')
        h = self._hash(key, create=True)
        f = _b(field)
        r = 0 if f in h else 1
        h[f] = _b(value)
        self._post(k)
        return r

    def hget(self, key, field):
        k = self._pre('hget')
        h = self._hash(key)
        r = None if h is None else h.get(_b(field))
        self._post(k)
        return r

    def hmget(self, key, *fields):
        if len(fields) == 1 and isinstance(fields[0], (list, tuple)):
            fields = tuple(fields[0])
        k = self._pre('hmget')
        h = self._hash(key)
        r = [None if h is None else h.get(_b(f)) for f in fields]
        self._post(k)
        return r

    def hincrby(self, key, field, amount=1):
        k = self._pre('hincrby')
        h = self._hash(key, create=True)
        f = _b(field)
        try:
            cur = int(h.get(f, b'0'))
        except ValueError:
            raise self.ResponseError('hash value is not an integer')
        cur += amount
        h[f] = str(cur).encode()
        self._post(k)
        return cur

    def keys(self, pattern='*'):
        k = self._pre('keys')
        pat = _b(pattern).decode('latin1')
        r = [key for key in self.data
             if fnmatch.fnmatchcase(key.decode('latin1'), pat)]
        # redis returns keys in hash-table order: seeded shuffle
        r.sort()
        r.sort(key=lambda x: H(self.world.sched_seed, 'keys', k, x))
        self._post(k)
        return r

    def delete(self, *keys):
        k = self._pre('delete')
        n = 0
        for key in keys:
            if self.data.pop(_b(key), None) is not None:
                n += 1
        self._post(k)
        return n

    def _rpush(self, key, *values):
        key = _b(key)
        v = self.data.get(key)
        if v is None:
            v = self.data[key] = []
        if not isinstance(v, list):
            raise self.ResponseError('WRONGTYPE Operation against a key '
                                     'holding the wrong kind of value')
        for x in values:
            v.append(_b(x))
        self.list_event.set()
        return len(v)

    def rpush(self, key, *values):
        k = self._pre('rpush')
        r = self._rpush(key, *values)
        self._post(k)
        return r

    def blpop(self, keys, timeout=0):
        if isinstance(keys, (str, bytes)):
            keys = [keys]
        k = self._pre('blpop')
        deadline = None
        if timeout:
            deadline = self.world.loop.now() + timeout
        while True:
            for key in keys:
                kb = _b(key)
                v = self.data.get(kb)
                if isinstance(v, list) and v:
                    item = v.pop(0)
                    if not v:
                        del self.data[kb]
                    self._post(k)
                    return (kb, item)
                if v is not None and not isinstance(v, list):
                    raise self.ResponseError('WRONGTYPE')
            self.list_event.clear()
            if deadline is None:
                self.list_event.wait()
            else:
                rem = deadline - self.world.loop.now()
                if rem <= 0 or not self.list_event.wait(rem):
                    return None

    def pipeline(self, transaction=True):
        return _Pipe(self)


class _Pipe(object):
    def __init__(self, r):
        self.r = r
        self.cmds = []

    def hmset(self, key, mapping):
        self.cmds.append(('hmset', key, dict(mapping)))
        return self

    def rpush(self, key, *values):
        self.cmds.append(('rpush', key) + values)
        return self

    def hset(self, key, field, value):
        self.cmds.append(('hmset', key, {field: value}))
        return self

    def execute(self):
        r = self.r
        k = r._pre('exec')
        out = []
        for c in self.cmds:      # MULTI/EXEC: atomic
            if c[0] == 'hmset':
                out.append(r._hmset(c[1], c[2]))
            elif c[0] == 'rpush':
                out.append(r._rpush(c[1], *c[2:]))
        self.cmds = []
        r._post(k)
        return out
