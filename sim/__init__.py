"""Deterministic simulation substrate for python-slimta (see /verif/DESIGN.md)."""
