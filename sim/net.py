"""In-memory network: SimSocket pairs with seeded segmentation, latency, faults.

A connection is two one-directional pipes.  A write is cut into segments by
the writer side's *segmenter*; each segment is queued with a due time
(monotone per pipe, so order is preserved) and delivered by a loop timer.
Nothing here draws from a stream PRNG: every cut and latency is keyed by
(sched_seed, connection label, direction, write index).
"""
from __future__ import annotations

import errno
import socket as _socket
from collections import deque

from gevent.event import Event
from gevent import Timeout

from .world import H


LAT_ZERO = (0.0,)
LAT_SMALL = (0.0, 0.0, 0.001, 0.001, 0.002, 0.005, 0.01)
LAT_WIDE = (0.0, 0.001, 0.001, 0.01, 0.05, 0.1, 0.5, 1.0)

SEGMENTERS = ('whole', 'line', 'byte', 'cuts', 'crlf', 'chunk', 'few')


def cut_points(mode, data, key, param=None):
    """positions (0<p<len) at which to cut `data` for segmenter `mode`."""
    n = len(data)
    if n <= 1 or mode == 'whole':
        return []
    if mode == 'byte':
        return list(range(1, n))
    if mode == 'line':
        return [i + 1 for i in range(n - 1) if data[i] == 10]
    if mode == 'crlf':
        # cut between CR and LF, and right after a leading dot of a line
        pts = set()
        for i in range(n - 1):
            if data[i] == 13 and data[i + 1] == 10:
                pts.add(i + 1)
            if data[i] == 10 and data[i + 1] == 46 and i + 2 < n:
                pts.add(i + 2)
        return sorted(pts)
    if mode == 'chunk':
        size = param or 7
        return list(range(size, n, size))
    if mode == 'few':
        k = 1 + H(key, 'few-n') % 3
        pts = set()
        for j in range(k):
            pts.add(1 + H(key, 'few', j) % (n - 1))
        return sorted(pts)
    if mode == 'cuts':
        # each boundary cut with probability p (keyed)
        p = param if param is not None else 0.2
        thr = int(p * 1000)
        return [i for i in range(1, n) if H(key, 'c', i) % 1000 < thr]
    raise ValueError(mode)


def segment(mode, data, key, param=None):
    pts = cut_points(mode, data, key, param)
    out = []
    last = 0
    for p in pts:
        out.append(bytes(data[last:p]))
        last = p
    out.append(bytes(data[last:]))
    return [s for s in out if s]


class Pipe(object):
    """one direction of a connection, reader-side state"""

    def __init__(self, world, label):
        self.world = world
        self.label = label
        self.buf = bytearray()
        self.eof = False
        self.rst = False
        self.readable = Event()
        self.queue = deque()        # (due, kind, payload)
        self.last_due = 0.0
        self.delivered = 0          # bytes delivered to reader buffer
        self.written = 0            # bytes written by the writer
        self.consumed = 0           # bytes consumed by reader
        self.writes = 0
        self.stall_at = None        # deliver no byte at/after this offset..
        self.stall_until = None     # ..until this absolute loop time (None=forever)
        self.trickle = None         # seconds per byte once stalled offset hit
        self.on_deliver = None
        self.writer_closed = False

    def _schedule(self, kind, payload, latency):
        loop = self.world.loop
        due = max(self.last_due, loop._now + latency)
        self.last_due = due
        self.queue.append((due, kind, payload))
        t = loop.timer(max(0.0, due - loop._now))
        t.start(self._fire)

    def _fire(self):
        loop = self.world.loop
        q = self.queue
        woke = False
        while q and q[0][0] <= loop._now + 1e-12:
            due, kind, payload = q.popleft()
            if kind == 'data':
                self.buf += payload
                self.delivered += len(payload)
                self.world.log('SEG', self.label, len(payload))
            elif kind == 'eof':
                self.eof = True
                self.world.log('EOF', self.label)
            elif kind == 'rst':
                self.rst = True
                self.world.log('RST', self.label)
            woke = True
        if woke:
            self.readable.set()
            if self.on_deliver is not None:
                self.on_deliver()


class SimSocket(object):
    """gevent-socket-like endpoint.  Blocking calls block the calling greenlet
    on a gevent Event (never the real loop)."""

    _next_fileno = 1000

    def __init__(self, world, label, rx, tx, addr, peer_addr,
                 segmenter='whole', seg_param=None, latency=LAT_SMALL,
                 read_cap=None):
        self.world = world
        self.label = label
        self.rx = rx
        self.tx = tx
        self.addr = addr
        self.peer_addr = peer_addr
        self.segmenter = segmenter
        self.seg_param = seg_param
        self.latency = latency
        self.read_cap = read_cap
        self.closed = False
        self.timeout = None
        n = world.counters.get('fileno', 1000)
        world.counters['fileno'] = n + 1
        self._fileno = n
        reg = world.__dict__.setdefault('sockets', {})
        reg[n] = self
        self.reads = 0
        self.send_fault = None     # ('rst', after_bytes)

    # --- info
    def fileno(self):
        return -1 if self.closed else self._fileno

    def getpeername(self):
        return self.peer_addr

    def getsockname(self):
        return self.addr

    def settimeout(self, t):
        self.timeout = t

    def gettimeout(self):
        return self.timeout

    def setblocking(self, flag):
        self.timeout = None if flag else 0.0

    def setsockopt(self, *a):
        pass

    def getsockopt(self, *a):
        return 0

    family = _socket.AF_INET
    type = _socket.SOCK_STREAM
    proto = 0

    # --- reading
    def _wait_readable(self):
        rx = self.rx
        while not rx.buf and not rx.eof and not rx.rst:
            if self.closed:
                raise OSError(errno.EBADF, 'Bad file descriptor')
            rx.readable.clear()
            if self.timeout is not None:
                if not rx.readable.wait(self.timeout):
                    raise _socket.timeout('timed out')
            else:
                rx.readable.wait()

    def recv(self, n, flags=0):
        if self.closed:
            raise OSError(errno.EBADF, 'Bad file descriptor')
        self._wait_readable()
        rx = self.rx
        if rx.buf:
            k = min(n, len(rx.buf))
            if self.read_cap is not None:
                cap = 1 + H(self.world.sched_seed, 'rcap', self.label,
                            self.reads) % self.read_cap
                k = min(k, cap)
            self.reads += 1
            data = bytes(rx.buf[:k])
            del rx.buf[:k]
            rx.consumed += k
            return data
        if rx.rst:
            raise ConnectionResetError(errno.ECONNRESET,
                                       'Connection reset by peer')
        return b''

    def recv_into(self, buf, nbytes=0, flags=0):
        view = memoryview(buf)
        n = nbytes or len(view)
        data = self.recv(n)
        view[:len(data)] = data
        return len(data)

    def pending(self):
        return len(self.rx.buf)

    def unread(self):
        """bytes written by the peer and not yet consumed by this side,
        delivered or still in flight (ground truth for consumption oracles)"""
        out = bytes(self.rx.buf)
        for due, kind, payload in self.rx.queue:
            if kind == 'data':
                out += payload
        return out

    # --- writing
    def sendall(self, data, flags=0):
        if self.closed:
            raise OSError(errno.EBADF, 'Bad file descriptor')
        tx = self.tx
        if tx.writer_closed:
            raise BrokenPipeError(errno.EPIPE, 'Broken pipe')
        if self.rx.rst:
            raise ConnectionResetError(errno.ECONNRESET,
                                       'Connection reset by peer')
        data = bytes(data)
        if not data:
            return
        w = self.world
        key = (w.sched_seed, 'seg', self.label, tx.writes)
        segs = segment(self.segmenter, data, key, self.seg_param)
        for j, s in enumerate(segs):
            lat = self.latency[H(w.sched_seed, 'lat', self.label, tx.writes, j)
                               % len(self.latency)]
            tx._schedule('data', s, lat)
        tx.writes += 1
        tx.written += len(data)

    def send(self, data, flags=0):
        self.sendall(data)
        return len(data)

    def close(self):
        if self.closed:
            return
        self.closed = True
        self.world.log('CLOSE', self.label)
        tx = self.tx
        if not tx.writer_closed:
            tx.writer_closed = True
            lat = self.latency[H(self.world.sched_seed, 'latc', self.label)
                               % len(self.latency)]
            tx._schedule('eof', None, lat)
        # wake any reader blocked on this socket
        self.rx.readable.set()

    def shutdown(self, how):
        tx = self.tx
        if how in (_socket.SHUT_WR, _socket.SHUT_RDWR) and not tx.writer_closed:
            tx.writer_closed = True
            tx._schedule('eof', None, 0.0)

    def reset(self):
        """abortive close: peer sees ECONNRESET"""
        self.closed = True
        self.tx.writer_closed = True
        self.tx._schedule('rst', None, 0.0)
        self.rx.readable.set()

    def makefile(self, mode='rb', buffering=None, **kw):
        import io
        raw = _SockRaw(self)
        if 'r' in mode:
            return io.BufferedReader(raw, 8192)
        return io.BufferedWriter(raw, 8192)

    def __enter__(self):
        return self

    def __exit__(self, *a):
        self.close()


class _SockRaw(object):
    """RawIOBase-alike for http.client's makefile('rb')"""

    def __init__(self, sock):
        import io
        self._sock = sock
        self.closed = False

    def readable(self):
        return True

    def writable(self):
        return True

    def seekable(self):
        return False

    def readinto(self, b):
        return self._sock.recv_into(b)

    def write(self, b):
        self._sock.sendall(b)
        return len(b)

    def close(self):
        self.closed = True

    def flush(self):
        pass

    def fileno(self):
        return self._sock.fileno()

    @property
    def mode(self):
        return 'rb'

    def isatty(self):
        return False

    def __getattr__(self, name):
        raise AttributeError(name)


def socketpair(world, label, a_opts=None, b_opts=None,
               a_addr=('127.0.0.1', 40000), b_addr=('10.0.0.1', 25)):
    """returns (a, b): a is conventionally the client side, b the server."""
    n = world.counter('conn:' + label)
    lab = '%s#%d' % (label, n)
    ab = Pipe(world, lab + '>')
    ba = Pipe(world, lab + '<')
    a = SimSocket(world, lab + ':a', rx=ba, tx=ab, addr=a_addr,
                  peer_addr=b_addr, **(a_opts or {}))
    b = SimSocket(world, lab + ':b', rx=ab, tx=ba, addr=b_addr,
                  peer_addr=a_addr, **(b_opts or {}))
    a.peer = b
    b.peer = a
    return a, b


def sim_wait_read(fileno, timeout=None, timeout_exc=None):
    """replacement for gevent.socket.wait_read keyed by fake fileno"""
    from . import world as _w
    w = _w.CURRENT
    sock = w.sockets.get(fileno) if w is not None else None
    if sock is None:
        raise OSError(errno.EBADF, 'wait_read on unknown fileno %r' % fileno)
    rx = sock.rx
    if rx.buf or rx.eof or rx.rst:
        return
    rx.readable.clear()
    if not rx.readable.wait(timeout):
        if timeout_exc is not None:
            raise timeout_exc
        raise _socket.timeout('timed out')
