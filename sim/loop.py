"""SimLoop: a pure-Python, virtual-time event loop for gevent's Hub.

gevent asks its loop for ``run_callback`` (FIFO "soon" queue), ``timer`` and
``io``.  This loop keeps the callback queue FIFO exactly as libev/libuv
gevent loops do, keeps timers in a heap ordered by (due, seeded tie, seq) and
jumps the clock to the next timer when no callback is runnable.  ``io`` is
refused: no real file descriptor may ever be waited on under simulation.
"""
from __future__ import annotations

import heapq
import sys
from collections import deque

EPOCH = 1700000000.0


class StepCapExceeded(Exception):
    pass


class MissingSeam(Exception):
    """Something tried to touch a real OS resource under simulation."""


class _Callback(object):
    __slots__ = ('callback', 'args')

    def __init__(self, callback, args):
        self.callback = callback
        self.args = args

    def stop(self):
        self.callback = None
        self.args = None

    close = stop

    @property
    def pending(self):
        return self.callback is not None

    def __bool__(self):
        return self.callback is not None


class _Timer(object):
    __slots__ = ('loop', 'after', 'repeat', 'ref', 'callback', 'args',
                 'due', 'token', 'closed')

    def __init__(self, loop, after, repeat, ref):
        self.loop = loop
        self.after = max(0.0, float(after or 0.0))
        self.repeat = repeat
        self.ref = ref
        self.callback = None
        self.args = None
        self.due = None
        self.token = None
        self.closed = False

    def start(self, callback, *args, **kwargs):
        if self.closed:
            raise RuntimeError('timer closed')
        if self.token is not None:
            self.stop()
        self.callback = callback
        self.args = args
        loop = self.loop
        loop._register(callback)
        self.due = loop._now + self.after
        loop._seq += 1
        self.token = [self.due, loop._tie(), loop._seq, self]
        heapq.heappush(loop._timers, self.token)
        if self.ref:
            loop._ref_timers += 1

    def again(self, callback, *args, **kwargs):
        self.start(callback, *args, **kwargs)

    def stop(self):
        tok = self.token
        if tok is not None:
            tok[3] = None
            self.token = None
            if self.ref:
                self.loop._ref_timers -= 1
        self.callback = None
        self.args = None

    def close(self):
        self.stop()
        self.closed = True

    @property
    def active(self):
        return self.token is not None

    @property
    def pending(self):
        return False

    def __enter__(self):
        return self

    def __exit__(self, *a):
        self.close()


class _NullWatcher(object):
    """async_/signal/fork/child watchers the hub may create; never fire."""
    active = False
    pending = False
    ref = False

    def start(self, *a, **k):
        pass

    def stop(self):
        pass

    def close(self):
        pass

    def send(self):
        pass

    def __enter__(self):
        return self

    def __exit__(self, *a):
        pass


class SimLoop(object):
    default = False
    MAXPRI = 2
    MINPRI = -2

    def __init__(self, tie_rng=None, step_cap=2000000, start=EPOCH):
        self._callbacks = deque()
        self._timers = []
        self._ref_timers = 0
        self._now = start
        self._start = start
        self._seq = 0
        self._tie_rng = tie_rng
        self.steps = 0
        self.step_cap = step_cap
        self.cap_hit = False
        self.error_handler = None
        self.greenlets = []          # strong refs: every greenlet ever started
        self._seen = set()
        self.timer_fires = 0
        self.on_step = None          # optional invariant hook
        self.batch_timers = True
        self.stopped = False

    # -- time
    def now(self):
        return self._now

    def update_now(self):
        pass

    update = update_now

    def elapsed(self):
        return self._now - self._start

    def _tie(self):
        # Timers with numerically equal due times fire in arming order.  The
        # real loop refreshes its clock when a timer is armed, so a timer
        # armed later is due (infinitesimally) later; a seeded shuffle here
        # produced orders the real hub cannot (found by selftest/fidelity.py,
        # program p_pool).  Schedule diversity comes from seeded latencies.
        return 0.0

    # -- scheduling
    def _register(self, func):
        # every greenlet is started (or resumed) through a bound switch/throw
        owner = getattr(func, '__self__', None)
        if owner is not None and hasattr(owner, 'gr_frame'):
            i = id(owner)
            if i not in self._seen:
                self._seen.add(i)
                self.greenlets.append(owner)

    def run_callback(self, func, *args):
        cb = _Callback(func, args)
        self._callbacks.append(cb)
        self._register(func)
        return cb

    run_callback_threadsafe = run_callback

    def timer(self, after, repeat=0.0, ref=True, priority=None):
        return _Timer(self, after, repeat, ref)

    def io(self, fd, events, ref=True, priority=None):
        raise MissingSeam('loop.io(fd=%r): real file descriptor under '
                          'simulation' % (fd,))

    def closing_fd(self, fd):
        return False

    def async_(self, ref=True, priority=None):
        return _NullWatcher()

    def idle(self, ref=True, priority=None):
        raise MissingSeam('loop.idle')

    def prepare(self, ref=True, priority=None):
        return _NullWatcher()

    def check(self, ref=True, priority=None):
        return _NullWatcher()

    def fork(self, ref=True, priority=None):
        return _NullWatcher()

    def child(self, *a, **k):
        raise MissingSeam('loop.child')

    def signal(self, *a, **k):
        return _NullWatcher()

    def install_sigchld(self):
        pass

    def reinit(self):
        pass

    def ref(self):
        pass

    def unref(self):
        pass

    def break_(self, how=None):
        self.stopped = True

    def verify(self):
        pass

    def destroy(self):
        self._callbacks.clear()
        self._timers = []
        self.greenlets = []
        self._seen = set()

    @property
    def pendingcnt(self):
        return len(self._callbacks)

    @property
    def activecnt(self):
        return self._ref_timers

    def debug(self):
        return ['SimLoop t=%.6f steps=%d' % (self.elapsed(), self.steps)]

    def _format(self):
        return 'SimLoop'

    # -- error handling
    def handle_error(self, context, type, value, tb):
        handler = self.error_handler
        if handler is not None:
            handler.handle_error(context, type, value, tb)
        else:
            sys.excepthook(type, value, tb)

    # -- main loop
    def run(self, nowait=False, once=False):
        callbacks = self._callbacks
        timers = self._timers
        while True:
            while callbacks:
                if self.steps >= self.step_cap:
                    self.cap_hit = True
                    return
                cb = callbacks.popleft()
                func = cb.callback
                if func is None:
                    continue
                args = cb.args
                cb.callback = None
                cb.args = None
                self.steps += 1
                try:
                    func(*args)
                except BaseException:
                    self.handle_error((func, args), *sys.exc_info())
                if self.on_step is not None:
                    self.on_step()
            # nothing runnable: advance the clock to the next live timer
            while timers and timers[0][3] is None:
                heapq.heappop(timers)
            if not timers or self._ref_timers <= 0:
                return
            if self.steps >= self.step_cap:
                self.cap_hit = True
                return
            # like libev: every timer that has expired by the new `now` fires
            # in this iteration, in (due, arming) order, before the callback
            # queue is served again (batch_timers); with batch_timers off,
            # one timer per iteration (the later-armed equal-due timer is
            # "infinitesimally later": also a schedule the real loop produces)
            first = True
            while timers:
                while timers and timers[0][3] is None:
                    heapq.heappop(timers)
                if not timers:
                    break
                if not first and (not self.batch_timers or
                                  timers[0][0] > self._now):
                    break
                first = False
                tok = heapq.heappop(timers)
                t = tok[3]
                if tok[0] > self._now:
                    self._now = tok[0]
                func, args = t.callback, t.args
                t.token = None
                if t.ref:
                    self._ref_timers -= 1
                self.steps += 1
                self.timer_fires += 1
                try:
                    func(*args)
                except BaseException:
                    self.handle_error((func, args), *sys.exc_info())
                if self.on_step is not None:
                    self.on_step()
