#!/venv/bin/python
"""regenerate the seeded-change table in DESIGN.md from seeded/*/meta.json"""
import glob, json, os, re
V = os.path.dirname(os.path.dirname(os.path.abspath(__file__)))
rows = ['| seeded change | breaks | what it needs to manifest | caught by |', '|---|---|---|---|']
for d in sorted(glob.glob(os.path.join(V, 'seeded', '*'))):
    try:
        m = json.load(open(os.path.join(d, 'meta.json')))
    except Exception:
        continue
    def cell(x, n):
        x = ' '.join(str(x or '').split()).replace('|', '/')
        return x if len(x) <= n else x[:n - 3] + '...'
    rows.append('| `%s` | %s | %s | %s |' % (os.path.basename(d), cell(m.get('summary'), 260), cell(m.get('needs'), 220), cell(m.get('caught_by'), 260)))
p = os.path.join(V, 'DESIGN.md')
s = open(p).read()
tab = '<!-- seedtable:begin -->\n' + '\n'.join(rows) + '\n<!-- seedtable:end -->'
if 'SEEDTABLE' in s:
    s = s.replace('SEEDTABLE', tab)
else:
    s = re.sub(r'<!-- seedtable:begin -->.*?<!-- seedtable:end -->', lambda m: tab, s, flags=re.S)
open(p, 'w').write(s)
print(len(rows) - 2, 'seeded changes')
