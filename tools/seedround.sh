#!/bin/bash
# tools/seedround.sh PID "CHECKS..."  - confirm the agent's change in /tmp/wt_PID (suite, demo with/without)
# and run the named quick checks against it (scratch copy); prints a short summary
PID=$1; shift
echo "##### $PID"
bash /verif/tools/verifyseed.sh $PID 2>&1 | grep "== suite\|== demo\|== diffstat" | cut -c1-170
timeout 2400 /venv/bin/python /verif/tools/tryseed.py /tmp/wt_$PID/patch.diff "$@" 2>&1 | grep -E "rc=|CAUGHT|PATCH" | cut -c1-330
