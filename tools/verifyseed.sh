#!/bin/bash
# tools/verifyseed.sh PID  - confirm an agent's seeded change in its worktree:
# suite result with the change, demo with the change (must fail), demo without (must pass)
PID=$1; W=/tmp/wt_$PID
cd $W || exit 2
echo "== files: $(ls patch.diff demo.py meta.json 2>&1 | tr '\n' ' ')"
git diff -- slimta > /dev/shm/cur_$PID.diff
echo "== diffstat: $(git diff --stat -- slimta | tail -1)"
echo "== suite with change: $(/venv/bin/python -m pytest -q -p no:cacheprovider --continue-on-collection-errors 2>&1 | tail -1)"
timeout 120 /venv/bin/python -W ignore demo.py > /dev/shm/demo_with_$PID.log 2>&1; echo "== demo WITH change: rc=$? :: $(tail -2 /dev/shm/demo_with_$PID.log | tr '\n' ' ' | cut -c1-300)"
git apply -R /dev/shm/cur_$PID.diff && { timeout 120 /venv/bin/python -W ignore demo.py > /dev/shm/demo_without_$PID.log 2>&1; echo "== demo WITHOUT change: rc=$? :: $(tail -1 /dev/shm/demo_without_$PID.log | cut -c1-200)"; git apply /dev/shm/cur_$PID.diff; }
