#!/venv/bin/python
"""tools/addfixed.py <replay.json> <witness-name> <commit> <what failed>
records a repaired defect: copies the replay as a regression witness and adds
a 'fixed:' entry to known_findings.json"""
import json, os, sys
V = os.path.dirname(os.path.dirname(os.path.abspath(__file__)))
rp, name, commit, text = sys.argv[1:5]
d = json.load(open(rp))
pid = d['property']
d.pop('expected_digest', None)
d['note'] = 'witness of a repaired defect; must no longer violate'
wp = 'known/fixed/%s_%s.json' % (pid, name)
json.dump(d, open(os.path.join(V, wp), 'w'), indent=1, sort_keys=True)
kf = json.load(open(os.path.join(V, 'known_findings.json')))
kf['findings'] = [f for f in kf['findings'] if f.get('witness') != wp]
kf['findings'].append({'property': pid, 'status': 'fixed', 'commit': commit, 'witness': wp,
                       'line': 'fixed: property=%s %s %s' % (pid, commit, text)})
json.dump(kf, open(os.path.join(V, 'known_findings.json'), 'w'), indent=1)
print('recorded', wp)
