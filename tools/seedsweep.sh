#!/bin/bash
# tools/seedsweep.sh [NAME-PREFIX]  - re-run, for every kept seeded change, the quick check(s) named first in its
# meta.json "caught_by" against a scratch copy with the change applied; prints one line per change.
cd /verif
for d in seeded/${1}*/; do
  n=$(basename $d)
  checks=$(/venv/bin/python - "$d/meta.json" <<'PY'
import json,re,sys
m=json.load(open(sys.argv[1]))
ids=re.findall(r'C\d\d', m.get('caught_by',''))
own=m.get('property')
out=[]
for i in ids:
    if i not in out: out.append(i)
# not-caught notes: "not C01" etc. - keep only ids before the first ';'
head=m.get('caught_by','').split(';')[0]
ids2=[i for i in re.findall(r'C\d\d', head)]
print(' '.join(dict.fromkeys(ids2)) if ids2 else '')
PY
)
  if [ -z "$checks" ]; then echo "$n: (no check listed)"; continue; fi
  first=$(echo $checks | cut -d' ' -f1)
  res=$(timeout 1500 /venv/bin/python tools/tryseed.py $d/patch.diff $first 2>&1 | tail -1)
  echo "$n: $first -> $res"
done
