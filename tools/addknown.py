#!/venv/bin/python
"""tools/addknown.py <replay.json> <witness-name> <summary>
records a genuine defect that is not repaired as a known finding"""
import json, os, sys
V = os.path.dirname(os.path.dirname(os.path.abspath(__file__)))
rp, name, text = sys.argv[1:4]
d = json.load(open(rp))
pid = d['property']
d.pop('expected_digest', None)
wp = 'known/%s_%s.json' % (pid, name)
json.dump(d, open(os.path.join(V, wp), 'w'), indent=1, sort_keys=True)
kf = json.load(open(os.path.join(V, 'known_findings.json')))
kf['findings'] = [f for f in kf['findings'] if f.get('witness') != wp]
kf['findings'].append({'property': pid, 'status': 'known', 'signature': d['expected_signature'],
                       'witness': wp, 'summary': text})
json.dump(kf, open(os.path.join(V, 'known_findings.json'), 'w'), indent=1)
print('recorded', wp, d['expected_signature'])
