#!/venv/bin/python
"""Regenerates /verif/MANIFEST.json from the per-property modules present."""
import json, os, sys, importlib
V = os.path.dirname(os.path.dirname(os.path.abspath(__file__)))
sys.path.insert(0, V); sys.path.insert(0, '/repo')
NA = {
 'C16': 'pure function of the envelope and policy configuration: _run_policies and the built-in policies are synchronous, with no clock, I/O, fault, schedule or second party to simulate; envelope generation under a simulator would be input fuzzing in simulator clothing (DESIGN.md section 9)',
 'C20': 'pure function of the message bytes (parse/flatten/copy/pickle/encode_7bit): no schedule, time, fault or multi-party behaviour for deterministic simulation to decide (DESIGN.md section 9)',
}
TEXT = {}
checks = []
na = [{'property_id': k, 'reason': v} for k, v in sorted(NA.items())]
for n in range(1, 21):
    pid = 'C%02d' % n
    if pid in NA:
        continue
    if not os.path.exists(os.path.join(V, 'props', pid.lower() + '.py')):
        na.append({'property_id': pid, 'reason': 'not claimed yet: harness for this property is not built in this revision (planned, DESIGN.md section 8)'})
        continue
    mod = importlib.import_module('props.' + pid.lower())
    level = getattr(mod, 'LEVEL', 'exploration')
    checks.append({
        'property_id': pid,
        'quick_cmd': './check %s --tier quick' % pid,
        'thorough_cmd': './check %s --tier thorough' % pid,
        'evidence_file': 'evidence/%s.json' % pid,
        'replay_cmd_template': './check %s --replay {path}' % pid,
        'engine': 'simloop',
        'level_claimed': {'category': level,
                          'text': getattr(mod, 'LEVEL_TEXT', 'seeded search over schedules, segmentations, fault sequences and generated workloads with the real slimta code running on a virtual-time gevent loop; evidence over the sampled scenarios, not proof'),
                          'design_ref': getattr(mod, 'DESIGN_REF', 'DESIGN.md section 8, ' + pid)},
        'level_note': getattr(mod, 'LEVEL_NOTE', 'trusted: SimLoop fidelity to gevent scheduling (selftest), the in-process fakes listed under components.stub in the evidence file, the oracle written from the property statement'),
        'technique': getattr(mod, 'TECHNIQUE', 'deterministic simulation with fault injection: seeded schedule/fault search on a virtual-time gevent loop'),
    })
na.sort(key=lambda x: x['property_id'])
m = {
 'version': 1,
 'setup_cmd': '/venv/bin/python -c "import gevent, greenlet, pysasl, sys; sys.path.insert(0, \'/repo\'); import slimta.queue, slimta.edge.smtp; print(\'ok\')"',
 'hooks': {'guard': 'SLIMTA_VERIF', 'enable': 'no source hooks: every seam is a constructor parameter or a module attribute patched from /verif/sim (checks export SLIMTA_VERIF=1 for uniformity)',
           'baseline_off_cmd': 'cd /repo && /venv/bin/python -m pytest -ra -q -p no:cacheprovider --timeout=900 --continue-on-collection-errors',
           'source_commits': [], 'add_only': True},
 'engines': [{'name': 'simloop', 'path': 'sim/', 'serves_properties': [c['property_id'] for c in checks],
              'kind_free_text': 'pure-Python virtual-time event loop plugged into gevent.hub.Hub; in-memory network, TLS, file system, redis, object store, subprocess, DNS fakes; seeded scenario generation, minimisation and replay'}],
 'checks': checks,
 'not_applicable': na,
 'notes': 'See DESIGN.md. Genuine defects found are in known_findings.json (fixed entries name the /repo commit).',
}
json.dump(m, open(os.path.join(V, 'MANIFEST.json'), 'w'), indent=1)
print('checks:', [c['property_id'] for c in checks])
