#!/venv/bin/python
"""tools/tryseed.py <patch.diff> [PID ...] [--runs N] [--tests]
Apply a seeded change to a scratch copy of /repo (never /repo itself), check
that the existing suite still passes (--tests), and run the given checks
(default: all claimed) against the copy.  Prints which checks raise a
VIOLATION.  The scratch copy lives under /dev/shm and is removed."""
import json, os, shutil, subprocess, sys, tempfile
V = os.path.dirname(os.path.dirname(os.path.abspath(__file__)))
args = sys.argv[1:]
runs = None
tests = False
if '--runs' in args:
    i = args.index('--runs'); runs = args[i + 1]; del args[i:i + 2]
if '--tests' in args:
    tests = True; args.remove('--tests')
patch = os.path.abspath(args[0])
pids = args[1:] or [c['property_id'] for c in json.load(open(os.path.join(V, 'MANIFEST.json')))['checks']]
d = tempfile.mkdtemp(prefix='seedrun_', dir='/dev/shm')
try:
    subprocess.check_call('git -C /repo archive HEAD | tar -x -C %s' % d, shell=True)
    r = subprocess.run(['git', 'apply', '--unsafe-paths', '--directory', d, patch], capture_output=True, text=True, cwd='/')
    if r.returncode != 0:
        r = subprocess.run(['patch', '-p1', '-d', d, '-i', patch], capture_output=True, text=True)
        if r.returncode != 0:
            print('PATCH FAILED', r.stdout, r.stderr); sys.exit(2)
    if tests:
        t = subprocess.run('cd %s && /venv/bin/python -m pytest -q -p no:cacheprovider --continue-on-collection-errors 2>&1 | tail -1' % d, shell=True, capture_output=True, text=True)
        print('tests:', t.stdout.strip())
    env = dict(os.environ, VERIF_REPO=d)
    caught = []
    for pid in pids:
        cmd = [os.path.join(V, 'check'), pid, '--no-evidence']
        if runs:
            cmd += ['--runs', runs]
        p = subprocess.run(cmd, capture_output=True, text=True, env=env, cwd=V)
        viol = [l for l in p.stdout.splitlines() if l.startswith('violation:')]
        tag = 'rc=%d' % p.returncode
        print('%s %s %s' % (pid, tag, '; '.join(v[11:120] for v in viol[:3])))
        if p.returncode == 2:
            print('   ', p.stdout[-600:])
        if p.returncode == 1:
            caught.append(pid)
    print('CAUGHT BY:', caught)
finally:
    shutil.rmtree(d, ignore_errors=True)
    # replays written while testing a seeded change are not evidence
