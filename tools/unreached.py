#!/venv/bin/python
"""tools/unreached.py <PID> [--n N]  - which lines of the files a property is
anchored in (function bodies only) does no scenario of a sample reach?
Runs N scenarios of the property's generator in this process with
sys.monitoring line events and prints the unreached lines with their source,
grouped by function.  A guide for strengthening generators, not evidence."""
import ast
import importlib
import os
import sys

V = os.path.dirname(os.path.dirname(os.path.abspath(__file__)))
REPO = os.environ.get('VERIF_REPO') or '/repo'
os.environ.setdefault('SLIMTA_VERIF', '1')
os.environ.setdefault('TZ', 'UTC')
sys.path.insert(0, V)
sys.path.insert(0, REPO)
sys.path.insert(0, os.path.join(V, 'sim'))
import runner  # noqa
sys.path.remove(os.path.join(V, 'sim'))


def main():
    pid = sys.argv[1]
    n = 1500
    if '--n' in sys.argv:
        n = int(sys.argv[sys.argv.index('--n') + 1])
    only = None
    if '--file' in sys.argv:
        only = sys.argv[sys.argv.index('--file') + 1]
    mod = importlib.import_module('props.' + pid.lower())
    hit = runner._reach_start(pid)
    for i in range(n):
        seed = runner.H(20260925, pid, i) & ((1 << 48) - 1) \
            if hasattr(runner, 'H') else i + 1
        scn = mod.generate(seed, 'quick')
        runner.run_one(mod, scn)
    files = runner.anchored_files(pid)
    ex = runner.executable_lines(REPO, files)
    for rf in files:
        if only and only not in rf:
            continue
        src = open(os.path.join(REPO, rf)).read().split('\n')
        tree = ast.parse('\n'.join(src))
        funcs = []
        for node in ast.walk(tree):
            if isinstance(node, (ast.FunctionDef, ast.AsyncFunctionDef)):
                funcs.append((node.lineno, node.end_lineno, node.name))
        h = set(ln for f, ln in hit if f == rf)
        body = set()
        for a, b, name in funcs:
            body.update(ln for ln in ex.get(rf, ()) if a < ln <= b)
        miss = sorted(body - h)
        print('== %s: %d of %d function-body lines unreached' % (
            rf, len(miss), len(body)))
        cur = None
        for ln in miss:
            owner = [f for f in funcs if f[0] < ln <= f[1]]
            name = min(owner, key=lambda f: f[1] - f[0])[2] if owner else '?'
            if name != cur:
                print('  -- %s' % name)
                cur = name
            print('   %4d  %s' % (ln, src[ln - 1].strip()[:100]))


if __name__ == '__main__':
    main()
