#!/bin/bash
# tools/keepseed.sh PID NAME "caught by ..."  - keep a confirmed seeded change under /verif/seeded/
PID=$1; NAME=$2; CAUGHT=$3; W=/tmp/wt_$PID; D=/verif/seeded/${PID}_$NAME
mkdir -p $D
( cd $W && git diff -- slimta > $D/patch.diff ); cp $W/demo.py $D/demo.py
/venv/bin/python - "$W/meta.json" "$D/meta.json" "$PID" "$CAUGHT" <<'PY'
import json,sys
src,dst,pid,caught=sys.argv[1:5]
try: m=json.load(open(src))
except Exception as e: m={'property':pid,'summary':'(agent meta.json unreadable: %s)'%e}
m['confirmed_by_me']='in the scratch worktree /tmp/wt_%s: suite with the change = 15 failed, 449 passed (baseline); demo.py exits 1 with the change and 0 with it reverted (tools/verifyseed.sh)'%pid
m['checks_run']='tools/tryseed.py patch.diff (scratch copy of /repo under /dev/shm, VERIF_REPO) with the quick tier'
m['caught_by']=caught
json.dump(m,open(dst,'w'),indent=1)
PY
echo kept $D
